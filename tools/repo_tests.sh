#!/bin/sh
# Run the pinned baseline (no ICU) and the full ICU suite against a tree (default /repo).
T=${1:-/repo}
cd "$T" || exit 2
echo "== pinned baseline (expect 393 passed, 68 errors)"
PYTHONDONTWRITEBYTECODE=1 PYTHONPATH="$T" /venv/bin/python -m pytest -q -p no:cacheprovider --timeout=900 --continue-on-collection-errors -n 8 2>&1 | tail -1
echo "== full suite with ICU (expect 10356 passed, 14 skipped, 12 xfailed)"
LD_LIBRARY_PATH=/verif/.deps/icu PYTHONDONTWRITEBYTECODE=1 PYTHONPATH="$T" /venv/bin/python -m pytest -q -p no:cacheprovider --timeout=900 -n 12 2>&1 | tail -1
