#!/bin/sh
# Run every quick tier once; evidence goes to evidence/_quick/<id>.json so that evidence/<id>.json (the registered file) keeps the deeper thorough run.
cd "$(dirname "$0")/.." || exit 2
mkdir -p evidence/_quick
for p in ${PROPS:-C01 C02 C03 C04 C05 C06 C07 C08 C09 C10 C11 C12 C13 C14 C15 C16 C17 C18 C19 C20}; do
  out=$(./check $p --tier quick --evidence evidence/_quick/$p.json 2>&1); rc=$?
  echo "$p exit=$rc $(echo "$out" | grep -E 'verdict=' | cut -c1-150)"
  [ $rc -ne 0 ] && echo "$out" | grep -E "VIOLATION|key=|INCONCLUSIVE" | cut -c1-300 | head -6
done
