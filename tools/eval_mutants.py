#!/usr/bin/env python3
"""tools/eval_mutants.py [--import] [--confirm] [--only REGEX] [--tier quick] [--extra C13,...]

Imports sub-agent mutants from /tmp/wt{,2,3}/<PID>/out/m<k>/ into /verif/seeded/<PID>-[r2|r3]m<k>/ (patch.diff, demo.py, meta.json),
confirms them independently (tools/confirm_mutant.sh -> confirm.json) and runs the property's check against a scratch copy
of /repo with the patch applied (tools/mutant.sh) -> detection.json.  Never touches /repo.
"""
import argparse
import concurrent.futures as cf
import glob
import json
import os
import re
import shutil
import subprocess

V = "/verif"


def sh(cmd, timeout=3600):
    r = subprocess.run(cmd, shell=True, capture_output=True, text=True, timeout=timeout)
    return r.returncode, r.stdout + r.stderr


def do_import():
    for d in sorted(glob.glob("/tmp/wt/C*/out/m*")) + sorted(glob.glob("/tmp/wt2/C*/out/m*")) + sorted(glob.glob("/tmp/wt3/C*/out/m*")) + sorted(glob.glob("/tmp/wt4/C*/out/m*")) + sorted(glob.glob("/tmp/wt5/C*/out/m*")) + sorted(glob.glob("/tmp/wt6/C*/out/m*")) + sorted(glob.glob("/tmp/wt7/C*/out/m*")) + sorted(glob.glob("/tmp/wt8/C*/out/m*")) + sorted(glob.glob("/tmp/wt9/C*/out/m*")):
        pid = d.split("/")[3]; m = os.path.basename(d)
        if d.startswith("/tmp/wt2/"):
            m = "r2" + m
        if d.startswith("/tmp/wt3/"):
            m = "r3" + m
        if d.startswith("/tmp/wt4/"):
            m = "r4" + m
        if d.startswith("/tmp/wt5/"):
            m = "r5" + m
        if d.startswith("/tmp/wt6/"):
            m = "r6" + m
        if d.startswith("/tmp/wt7/"):
            m = "r7" + m
        if d.startswith("/tmp/wt8/"):
            m = "r8" + m
        if d.startswith("/tmp/wt9/"):
            m = "r9" + m
        dst = f"{V}/seeded/{pid}-{m}"
        if not os.path.exists(f"{d}/patch.diff"):
            continue
        os.makedirs(dst, exist_ok=True)
        for f in ("patch.diff", "demo.py", "meta.json"):
            if os.path.exists(f"{d}/{f}"):
                shutil.copy(f"{d}/{f}", f"{dst}/{f}")
        print("imported", dst)


def confirm(dst):
    rc, out = sh(f"{V}/tools/confirm_mutant.sh {dst}")
    line = [l for l in out.splitlines() if l.startswith("{")]
    res = json.loads(line[-1]) if line else {"error": out[-400:]}
    json.dump(res, open(f"{dst}/confirm.json", "w"), indent=1)
    return res


def detect(dst, pid, tier):
    rc, out = sh(f"{V}/tools/mutant.sh {dst}/patch.diff {pid} {tier}", timeout=7200)
    keys = re.findall(r"key=(.+?) count=(\d+)", out)
    verdict = re.findall(r"verdict=(\w+)", out)
    return {"check": pid, "tier": tier, "exit": rc, "verdict": verdict[-1] if verdict else None, "violation_keys": [[k, int(c)] for k, c in keys][:12]}


def main():
    ap = argparse.ArgumentParser()
    ap.add_argument("--import", dest="imp", action="store_true")
    ap.add_argument("--confirm", action="store_true")
    ap.add_argument("--only", default=".")
    ap.add_argument("--tier", default="quick")
    ap.add_argument("--extra", default="")
    ap.add_argument("--jobs", type=int, default=3)
    a = ap.parse_args()
    if a.imp:
        do_import()
    dirs = [d for d in sorted(glob.glob(f"{V}/seeded/*")) if os.path.isdir(d) and re.search(a.only, os.path.basename(d)) and os.path.exists(f"{d}/patch.diff")]

    def work(d):
        name = os.path.basename(d)
        pid = re.match(r"(?:self-)?(C\d+)", name).group(1)
        out = {"mutant": name}
        if a.confirm and os.path.exists(f"{d}/demo.py"):
            out["confirm"] = confirm(d)
        dets = []
        for p in [pid] + [x for x in a.extra.split(",") if x]:
            dets.append(detect(d, p, a.tier))
        prev = []
        if os.path.exists(f"{d}/detection.json"):
            prev = [x for x in json.load(open(f"{d}/detection.json")) if (x["check"], x["tier"]) not in {(y["check"], y["tier"]) for y in dets}]
        json.dump(prev + dets, open(f"{d}/detection.json", "w"), indent=1)
        out["detection"] = dets
        return out

    with cf.ThreadPoolExecutor(a.jobs) as ex:
        for r in ex.map(work, dirs):
            d = r["detection"]
            print(r["mutant"], "| confirm:", r.get("confirm", {}).get("demo_patched_rc", "-"), r.get("confirm", {}).get("demo_clean_rc", "-"),
                  "|", "; ".join(f"{x['check']}:{x['verdict']}({len(x['violation_keys'])} keys)" for x in d), flush=True)


if __name__ == "__main__":
    main()
