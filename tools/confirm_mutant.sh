#!/bin/sh
# tools/confirm_mutant.sh <dir with patch.diff demo.py meta.json> : independent confirmation in a scratch copy of /repo HEAD.
# Prints one JSON line: demo_clean, demo_patched, pinned, full.
D=$(realpath "$1")
S=$(mktemp -d /tmp/confirm.XXXXXX)
git -C /repo archive HEAD | tar -x -C "$S"
run_demo() { ( cd "$S" && LD_LIBRARY_PATH=/verif/.deps/icu PYTHONDONTWRITEBYTECODE=1 PYTHONPATH="$S" timeout 900 /venv/bin/python "$D/demo.py" >/dev/null 2>&1; echo $? ); }
DC=$(run_demo)
( cd "$S" && patch -s -p1 < "$D/patch.diff" ) || { echo "{\"error\": \"patch failed\"}"; rm -rf "$S"; exit 3; }
DP=$(run_demo)
PIN=$(cd "$S" && PYTHONDONTWRITEBYTECODE=1 PYTHONPATH="$S" /venv/bin/python -m pytest -q -p no:cacheprovider --timeout=900 --continue-on-collection-errors -n 4 2>&1 | tail -1)
FULL=$(cd "$S" && LD_LIBRARY_PATH=/verif/.deps/icu PYTHONDONTWRITEBYTECODE=1 PYTHONPATH="$S" /venv/bin/python -m pytest -q -p no:cacheprovider --timeout=900 -n 6 2>&1 | tail -1)
rm -rf "$S"
echo "{\"demo_clean_rc\": $DC, \"demo_patched_rc\": $DP, \"pinned\": \"$PIN\", \"full\": \"$FULL\", \"repo_head\": \"$(git -C /repo rev-parse --short HEAD)\"}"
