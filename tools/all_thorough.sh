#!/bin/sh
# Run every thorough tier one after another (used with `vp run`); prints one verdict line per property.
cd "$(dirname "$0")/.." || exit 2
for p in ${PROPS:-C03 C10 C12 C15 C17 C18 C16 C11 C09 C14 C05 C04 C06 C07 C08 C19 C13 C20 C02 C01}; do
  echo "=== $p thorough seed=${VERIF_SEED:-0} $(date +%T)"
  VERIF_JOBS=${VERIF_JOBS:-10} ./check $p --tier thorough > /tmp/all_thorough_$p.out 2>&1
  rc=$?
  grep -E "VIOLATION|KNOWN-FINDING|key=|verdict=|INCONCLUSIVE" /tmp/all_thorough_$p.out | cut -c1-400 | head -30
  rm -f /tmp/all_thorough_$p.out
  echo "    exit=$rc"
done
