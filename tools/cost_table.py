#!/usr/bin/env python3
"""Fill DESIGN.md placeholders (or refresh the generated blocks) from evidence/*.json, a thorough-run log and seeded/INDEX data."""
import glob, json, os, re, sys
V = "/verif"
thorough_log = sys.argv[1] if len(sys.argv) > 1 else None
th = {}
if thorough_log and os.path.exists(thorough_log):
    for m in re.finditer(r"\[(C\d+) thorough seed=\d+\] verdict=(\w+) evaluations=(\d+) distinct_nontrivial=(\d+) shards=(\d+) wall=([\d.]+)s", open(thorough_log).read()):
        th[m.group(1)] = m.groups()[1:]
# thorough figures: from evidence/<id>.json when that is a thorough-tier run (preferred), else from the log given on the command line
for f in sorted(glob.glob(f"{V}/evidence/C*.json")):
    e = json.load(open(f))
    if e.get("tier") == "thorough":
        c = e["coverage"]; th[e["property_id"]] = (c.get("verdict", ""), str(c["evaluations"]), str(c["distinct_nontrivial"]), str(c.get("shards", 0)), str(e["wall_s"]))
rows = []
qdir = f"{V}/evidence/_quick" if glob.glob(f"{V}/evidence/_quick/C*.json") else f"{V}/evidence"
for f in sorted(glob.glob(f"{qdir}/C*.json")):
    e = json.load(open(f)); c = e["coverage"]; pid = e["property_id"]
    top = sorted(c.get("monitor_counters", {}).items(), key=lambda kv: -kv[1])[:4]
    t = th.get(pid)
    rows.append(f"| {pid} | {e['tier']} | {e['wall_s']:.0f} s | {c['evaluations']:,} | {c['distinct_nontrivial']:,} | " + ", ".join(f"{k} {v:,}" for k, v in top) +
                " | " + (f"{t[0]}: {int(t[1]):,} evaluations, {int(t[2]):,} distinct, {float(t[4]):.0f} s" + (" (exhaustive)" if pid in ("C01","C02","C04","C06","C14","C15","C17","C20") else "") if t else "not run in this pass") + " |")
cost = ("| Check | tier | wall | evaluations | distinct non-trivial | largest monitor counters | thorough pass (seed 0) |\n|---|---|---|---|---|---|---|\n" + "\n".join(rows))
# mutant summary
seeded = []
for d in sorted(glob.glob(f"{V}/seeded/*")):
    if os.path.isdir(d) and os.path.exists(d + "/meta.json"):
        m = json.load(open(d + "/meta.json")); name = os.path.basename(d)
        caught = [r for r in m.get("ran_here", []) if r["verdict"] == "violated"]
        own = [r for r in caught if r["cmd"].split()[2] == m.get("property")]
        tag = "" if own or not caught else "(by " + ",".join(sorted({r["cmd"].split()[2] for r in caught})) + ") "
        seeded.append((name, m.get("property"), (m.get("summary") or m.get("what") or "")[:150].replace("\n", " ").replace("|", "/"),
                       tag + "; ".join(sorted({k.split(":")[1] if k.count(":") else k for r in (own or caught) for k, _ in r["violation_keys"][:3]}))[:90] if caught else "NOT CAUGHT"))
ms = (f"{len(seeded)} changes are kept under `seeded/` ({sum(1 for s in seeded if not s[0].startswith('self-'))} from independent sub-agents, the rest reversals/hand-made); "
      f"{sum(1 for s in seeded if s[3] != 'NOT CAUGHT' and not s[3].startswith('(by '))} are caught by the quick tier of the property's own check, "
      f"{sum(1 for s in seeded if s[3].startswith('(by '))} (concurrency / call-history changes made under another property's name) by the check named in brackets, "
      f"{sum(1 for s in seeded if s[3] == 'NOT CAUGHT')} by none. Full details: `seeded/INDEX.md`.\n\n"
      "| change | what (abridged) | caught by monitors |\n|---|---|---|\n" + "\n".join(f"| {a} | {c} | {d} |" for a, b, c, d in seeded))
s = open(f"{V}/DESIGN.md").read()
def put(tag, text):
    global s
    begin, end = f"<!-- {tag}:begin -->", f"<!-- {tag}:end -->"
    block = f"{begin}\n{text}\n{end}"
    if f"@@{tag}@@" in s:
        s = s.replace(f"@@{tag}@@", block)
    elif begin in s:
        s = s[:s.index(begin)] + block + s[s.index(end) + len(end):]
put("COST_TABLE", cost); put("MUTANT_SUMMARY", ms)
open(f"{V}/DESIGN.md", "w").write(s)
print("filled", len(rows), "cost rows,", len(seeded), "seeded rows")
