#!/usr/bin/env python3
"""tools/kf_add.py <property> <key> <fixed|open> "<what>" '<witness json>' [also_key ...]"""
import json, subprocess, sys
prop, key, status, what, witness, *also = sys.argv[1:]
p = "/verif/known_findings.json"
k = json.load(open(p))
if status == "fixed":
    sha = subprocess.run(["git", "-C", "/repo", "rev-parse", "--short", "HEAD"], capture_output=True, text=True).stdout.strip()
    status = f"fixed: property={prop} {sha} {what}"
k.append({"property": prop, "key": key, "status": status, "what": what, "witness": json.loads(witness), "also_keys": also})
json.dump(k, open(p, "w"), indent=1)
print("added", key, status[:60])
