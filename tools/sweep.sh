#!/bin/sh
# tools/sweep.sh "<seeds>" [tier] : run every check for each seed; evidence goes to /tmp so committed evidence is untouched.
cd "$(dirname "$0")/.." || exit 2
for s in ${1:-1 2 3 7}; do
  for p in ${PROPS:-C01 C02 C03 C04 C05 C06 C07 C08 C09 C10 C11 C12 C13 C14 C15 C16 C17 C18 C19 C20}; do
    out=$(VERIF_SEED=$s ./check $p --tier ${2:-quick} --evidence /tmp/sweep_ev_${s}_$p.json 2>&1)
    rc=$?
    echo "seed=$s $p exit=$rc $(echo "$out" | grep -E 'verdict=' | cut -c1-150)"
    [ $rc -ne 0 ] && echo "$out" | grep -E "VIOLATION|key=|INCONCLUSIVE" | cut -c1-400 | head -8
  done
done
