#!/bin/sh
# tools/mutant.sh <patch.diff> <PID> [tier] [extra check args]: run a check against a scratch copy of /repo with the patch applied.
# Never touches /repo; evidence goes to /tmp. Exit code is the check's.
P=$(realpath "$1"); PID=$2; TIER=${3:-quick}; shift; shift; [ $# -gt 0 ] && shift
S=$(mktemp -d /tmp/mutrepo.XXXXXX)
rsync -a --exclude .git --exclude __pycache__ /repo/ "$S"/
( cd "$S" && patch -s -p1 < "$P" ) || { echo "PATCH FAILED"; rm -rf "$S"; exit 3; }
cd /verif && VERIF_REPO="$S" ./check "$PID" --tier "$TIER" --evidence "$S/evidence.json" "$@"
rc=$?
rm -rf "$S"
exit $rc
