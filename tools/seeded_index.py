#!/usr/bin/env python3
"""Rewrite seeded/<id>/meta.json (merged: agent's description + what was run here) and seeded/INDEX.md."""
import glob, json, os, re
V = "/verif"
rows = []
for d in sorted(glob.glob(f"{V}/seeded/*")):
    if not os.path.isdir(d) or not os.path.exists(f"{d}/patch.diff"):
        continue
    name = os.path.basename(d)
    meta = {}
    if os.path.exists(f"{d}/meta.json"):
        try:
            meta = json.load(open(f"{d}/meta.json"))
        except Exception:
            meta = {}
    conf = json.load(open(f"{d}/confirm.json")) if os.path.exists(f"{d}/confirm.json") else None
    det = json.load(open(f"{d}/detection.json")) if os.path.exists(f"{d}/detection.json") else []
    pid = re.match(r"(?:self-)?(C\d+)", name).group(1)
    meta.setdefault("property", pid)
    meta["origin"] = "own self-test (reverse of a fix: commit or hand-made break)" if name.startswith("self-") else "independent sub-agent given only the property text and a scratch worktree"
    meta["confirmed_here"] = conf
    meta["ran_here"] = [{"cmd": f"tools/mutant.sh seeded/{name}/patch.diff {x['check']} {x['tier']}", "exit": x["exit"], "verdict": x["verdict"], "violation_keys": x["violation_keys"]} for x in det]
    json.dump(meta, open(f"{d}/meta.json", "w"), indent=1, ensure_ascii=False)
    caught = [x for x in det if x["verdict"] == "violated"]
    rows.append((name, pid, (meta.get("summary") or meta.get("what") or "")[:230].replace("\n", " ").replace("|", "/"),
                 (meta.get("needs_to_manifest") or "")[:200].replace("\n", " ").replace("|", "/"),
                 "; ".join(f"{x['check']} {x['tier']}: " + ", ".join(k for k, _ in x["violation_keys"][:3]) for x in caught) or "NOT CAUGHT",
                 "yes" if conf and conf.get("demo_clean_rc") == 0 and conf.get("demo_patched_rc") == 1 and "393 passed" in (conf.get("pinned") or "") and "10356 passed" in (conf.get("full") or "") else ("n/a" if conf is None else "NO")))
with open(f"{V}/seeded/INDEX.md", "w") as f:
    f.write("# Seeded property-breaking changes\n\nEach directory holds `patch.diff`, `demo.py` (where a sub-agent wrote one), `meta.json` (what it breaks, what it needs to manifest, what was run here).\n"
            "`confirmed` = demo passes on the clean tree, fails with the patch, and both the pinned 393-test baseline and the full 10 356-test ICU suite still pass with the patch.\n\n")
    f.write("| change | property | what | needs to manifest | caught by (check tier: first keys) | confirmed |\n|---|---|---|---|---|---|\n")
    for r in rows:
        f.write("| " + " | ".join(r) + " |\n")
print(len(rows), "rows;", sum(1 for r in rows if r[4] == "NOT CAUGHT"), "not caught")
