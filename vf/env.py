"""Environment bootstrap for every check (DESIGN §1).

The launcher (``./check``) never imports pyoda_time itself.  It builds the
environment in which *workers* run: the tree under test first on PYTHONPATH,
ICU on the loader path of the Python child only, third-party monitor
libraries (icontract) from /verif/.deps.
"""
from __future__ import annotations

import glob
import os
import subprocess
import sys

VERIF = os.path.dirname(os.path.dirname(os.path.abspath(__file__)))
DEPS = os.path.join(VERIF, ".deps")
ICU_DIR = os.path.join(DEPS, "icu")
PY = "/venv/bin/python"
WHEELS = "/opt/veriftools/wheels"


def repo_path() -> str:
    return os.environ.get("VERIF_REPO", "/repo")


def _find_icu() -> str | None:
    cands = []
    for d in os.environ.get("LD_LIBRARY_PATH", "").split(":"):
        if d:
            cands.append(d)
    cands += ["/root/miniconda/lib"] + sorted(glob.glob("/root/miniconda/pkgs/icu-*/lib"))
    cands += ["/usr/lib/x86_64-linux-gnu", "/usr/local/lib", "/usr/lib"]
    for d in cands:
        if glob.glob(os.path.join(d, "libicui18n.so.73*")):
            return d
    return None


def ensure_icu() -> str | None:
    """Build /verif/.deps/icu with symlinks to libicu*.so* only. Returns dir or None."""
    if glob.glob(os.path.join(ICU_DIR, "libicui18n.so.73*")):
        return ICU_DIR
    src = _find_icu()
    if src is None:
        return None
    os.makedirs(ICU_DIR, exist_ok=True)
    for f in glob.glob(os.path.join(src, "libicu*.so*")):
        dst = os.path.join(ICU_DIR, os.path.basename(f))
        if not os.path.lexists(dst):
            try:
                os.symlink(os.path.realpath(f), dst)
            except FileExistsError:
                pass
    return ICU_DIR


def ensure_deps() -> bool:
    """Install icontract (+deps) into /verif/.deps from the offline wheelhouse. Returns availability."""
    if os.path.isdir(os.path.join(DEPS, "icontract")):
        return True
    os.makedirs(DEPS, exist_ok=True)
    try:
        subprocess.run(
            [PY, "-m", "pip", "install", "-q", "--no-index", "--find-links", WHEELS, "--target", DEPS,
             "icontract", "asttokens", "typing_extensions", "six"],
            check=True, stdout=subprocess.DEVNULL, stderr=subprocess.PIPE, timeout=300,
        )
    except Exception as e:  # noqa: BLE001
        sys.stderr.write(f"[vf.env] icontract unavailable ({e}); using built-in contract shim\n")
        return False
    return os.path.isdir(os.path.join(DEPS, "icontract"))


def worker_env(extra: dict | None = None) -> dict:
    env = dict(os.environ)
    icu = ensure_icu()
    ensure_deps()
    # LD_LIBRARY_PATH for the Python child only; the private dir holds libicu* only.
    env["LD_LIBRARY_PATH"] = icu or ""
    pp = [repo_path(), VERIF, DEPS]
    env["PYTHONPATH"] = ":".join(pp)
    env["PYTHONHASHSEED"] = "0"
    env["PYTHONDONTWRITEBYTECODE"] = "1"
    env["VERIF_ICU"] = "1" if icu else "0"
    env.pop("PYTHONSTARTUP", None)
    if extra:
        env.update(extra)
    return env
