"""Launcher: shard -> subprocess workers -> merge -> classify -> evidence -> verdict (DESIGN §2)."""
from __future__ import annotations

import argparse
import json
import os
import re
import subprocess
import sys
import tempfile
import time

from . import env as venv

VERIF = venv.VERIF
EXIT_OK, EXIT_VIOL, EXIT_INCONC = 0, 1, 2


def _load_known() -> list[dict]:
    p = os.path.join(VERIF, "known_findings.json")
    if not os.path.exists(p):
        return []
    return json.load(open(p))


def _repo_head() -> str:
    try:
        r = subprocess.run(["git", "-C", venv.repo_path(), "rev-parse", "--short", "HEAD"], capture_output=True, text=True, timeout=20)
        d = subprocess.run(["git", "-C", venv.repo_path(), "status", "--porcelain", "--untracked-files=no"], capture_output=True, text=True, timeout=20)
        return r.stdout.strip() + ("+dirty" if d.stdout.strip() else "")
    except Exception:  # noqa: BLE001
        return "unknown"


def _spawn(pid: str, tier: str, seed: int, shard: dict, wenv: dict, replay: bool = False):
    f = tempfile.NamedTemporaryFile("w", suffix=".json", prefix=f"vf-{pid}-", delete=False)
    json.dump(shard, f)
    f.close()
    out = tempfile.NamedTemporaryFile("w+b", suffix=".out", prefix=f"vf-{pid}-", delete=False)
    cmd = [venv.PY, "-X", "faulthandler", "-m", "vf.worker", pid, tier, str(seed), "@" + f.name]
    if replay:
        cmd.append("--replay")
    p = subprocess.Popen(cmd, stdout=out, stderr=subprocess.STDOUT, env=wenv, cwd=VERIF)
    return {"proc": p, "shard": shard, "shard_file": f.name, "out": out, "t0": time.time()}


def _collect(job) -> tuple[dict | None, str]:
    job["out"].flush()
    job["out"].seek(0)
    text = job["out"].read().decode("utf-8", "replace")
    job["out"].close()
    for p in (job["shard_file"], job["out"].name):
        try:
            os.unlink(p)
        except OSError:
            pass
    res = None
    for line in text.splitlines():
        if line.startswith("@@RESULT "):
            try:
                res = json.loads(line[len("@@RESULT "):])
            except Exception:  # noqa: BLE001
                res = None
    log = "\n".join(l for l in text.splitlines() if not l.startswith("@@RESULT "))
    return res, log


def run_workers(pid: str, tier: str, seed: int, shards: list[dict], jobs: int, timeout_s: float, replay: bool = False):
    wenv = venv.worker_env()
    pending = list(shards)
    running: list[dict] = []
    results: list[dict] = []
    problems: list[str] = []
    while pending or running:
        while pending and len(running) < jobs:
            running.append(_spawn(pid, tier, seed, pending.pop(0), wenv, replay))
        time.sleep(0.05)
        still = []
        for j in running:
            rc = j["proc"].poll()
            name = j["shard"].get("name", "?")
            if rc is None:
                if time.time() - j["t0"] > j["shard"].get("timeout_s", timeout_s):
                    j["proc"].kill()
                    j["proc"].wait()
                    _collect(j)
                    problems.append(f"shard {name}: watchdog timeout after {int(time.time() - j['t0'])}s (inconclusive)")
                else:
                    still.append(j)
                continue
            res, log = _collect(j)
            if res is None:
                tail = "\n".join(log.splitlines()[-15:])
                problems.append(f"shard {name}: worker exited rc={rc} without result\n{tail}")
            else:
                res["_log_tail"] = "\n".join(log.splitlines()[-8:]) if res.get("inconclusive") else ""
                results.append(res)
        running = still
    return results, problems


def plan(pid: str, tier: str, seed: int) -> tuple[list[dict], dict]:
    wenv = venv.worker_env()
    r = subprocess.run([venv.PY, "-m", "vf.plan", pid, tier, str(seed)], capture_output=True, text=True, env=wenv, cwd=VERIF, timeout=600)
    for line in r.stdout.splitlines():
        if line.startswith("@@PLAN "):
            d = json.loads(line[len("@@PLAN "):])
            return d["shards"], d["meta"]
    raise RuntimeError(f"planning failed for {pid}: rc={r.returncode}\n{r.stdout[-2000:]}\n{r.stderr[-4000:]}")


def _san(key: str) -> str:
    return re.sub(r"[^A-Za-z0-9_.@+-]+", "_", key)[:120]


def merge_and_report(pid, tier, seed, meta, results, problems, t0, evidence_path) -> int:
    evaluations = sum(r["evaluations"] for r in results)
    hashes: set[int] = set()
    nt = 0
    for r in results:
        if r.get("nt_hashes") is not None:
            hashes.update(r["nt_hashes"])
        else:
            nt += r["nt_count"]
        nt += r.get("nt_extra", 0)
    nt += len(hashes)
    counters: dict[str, int] = {}
    exc_types: dict[str, int] = {}
    for r in results:
        for k, v in r["counters"].items():
            counters[k] = counters.get(k, 0) + v
        for k, v in r["exc_types"].items():
            exc_types[k] = exc_types.get(k, 0) + v
    viol: dict[str, dict] = {}
    for r in results:
        for v in r["violations"]:
            d = viol.setdefault(v["key"], {"key": v["key"], "count": 0, "cases": []})
            d["count"] += v["count"]
            for c in v["cases"]:
                if len(d["cases"]) < 3:
                    d["cases"].append(c)
    inconclusive = list(problems)
    for r in results:
        for w in r.get("inconclusive", []):
            inconclusive.append(f"shard {r['shard']}: {w}" + (("\n" + r["_log_tail"]) if r.get("_log_tail") else ""))
    samples = []
    for r in results:
        for s in r["samples"]:
            if len(samples) < 8:
                samples.append(s)
    notes = []
    for r in results:
        for n in r.get("notes", []):
            if n not in notes:
                notes.append(n)

    floor = (meta.get("min_nt") or {}).get(tier, 2)
    required = meta.get("required_counters", {}).get(tier, meta.get("required_counters", {}).get("any", []))
    for c in required:
        if counters.get(c, 0) <= 0:
            inconclusive.append(f"deciding monitor '{c}' recorded zero evaluations")
    if evaluations <= 0:
        inconclusive.append("no evaluations recorded")
    if nt < max(2, floor):
        inconclusive.append(f"distinct non-trivial cases {nt} below floor {floor}")

    known = [k for k in _load_known() if k.get("property") == pid]
    open_keys = {k["key"]: k for k in known if k.get("status") == "open"}
    new_viol, known_seen = [], []
    for key, v in sorted(viol.items()):
        (known_seen if key in open_keys else new_viol).append(v)

    replay_paths = []
    if new_viol:
        rdir = os.path.join(VERIF, "replay", pid)
        os.makedirs(rdir, exist_ok=True)
        for v in new_viol:
            for n, c in enumerate(v["cases"][:2]):
                path = os.path.join(rdir, f"{_san(v['key'])}-{n}.json")
                json.dump({"property": pid, "key": v["key"], "tier": tier, "seed": seed, "case": c["case"], "shard": c.get("shard"), "what": c["what"],
                           "observed": c["observed"], "expected": c["expected"], "repo_head": _repo_head()}, open(path, "w"), indent=1)
                if n == 0:
                    replay_paths.append((v, path))

    verdict = "violated" if new_viol else ("inconclusive" if inconclusive else "held_on_observed")
    coverage = {
        "evaluations": int(evaluations),
        "distinct_nontrivial": int(nt),
        "rule": meta.get("rule", ""),
        "samples": samples if samples else ["(no sample recorded)"],
        "exhaustive": bool(meta.get("exhaustive", {}).get(tier, False)) and not inconclusive,
        "monitor_counters": dict(sorted(counters.items())),
        "exception_types_seen": dict(sorted(exc_types.items())),
        "shards": len(results),
        "shard_wall_s": {r["shard"]: r["wall_s"] for r in results} if len(results) <= 64 else {"max": max((r["wall_s"] for r in results), default=0)},
        "verdict": verdict,
        "inconclusive_reasons": [s[:600] for s in inconclusive][:10],
        "known_findings_observed": [{"key": v["key"], "count": v["count"]} for v in known_seen],
        "new_violations": [{"key": v["key"], "count": v["count"], "first": v["cases"][0]["what"]} for v in new_viol][:20],
        "notes": notes[:20],
        "repo": venv.repo_path(),
        "repo_head": _repo_head(),
        "icu": bool(venv.ensure_icu()),
    }
    ev = {
        "property_id": pid,
        "tier": tier,
        "seed": int(seed),
        "level": meta.get("level", "exploration"),
        "coverage": coverage,
        "assumptions": meta.get("assumptions", []),
        "wall_s": round(time.time() - t0, 2),
        "violations": sum(v["count"] for v in new_viol),
    }
    os.makedirs(os.path.dirname(evidence_path), exist_ok=True)
    tmp = evidence_path + ".tmp"
    json.dump(ev, open(tmp, "w"), indent=1, default=repr)
    os.replace(tmp, evidence_path)

    for v in known_seen:
        print(f"KNOWN-FINDING: property={pid} {open_keys[v['key']].get('what', v['key'])} [key={v['key']} observed={v['count']}]")
    for v, path in replay_paths:
        print(f"VIOLATION property={pid} replay={path}")
        print(f"  key={v['key']} count={v['count']} first: {v['cases'][0]['what'][:300]}")
    print(f"[{pid} {tier} seed={seed}] verdict={verdict} evaluations={evaluations} distinct_nontrivial={nt} "
          f"shards={len(results)} wall={ev['wall_s']}s")
    top = sorted(counters.items(), key=lambda kv: -kv[1])[:12]
    print("  monitors: " + ", ".join(f"{k}={v}" for k, v in top))
    if new_viol:
        return EXIT_VIOL
    if inconclusive:
        for s in inconclusive[:6]:
            print("INCONCLUSIVE: " + s[:800])
        return EXIT_INCONC
    return EXIT_OK


def main(argv=None) -> int:
    ap = argparse.ArgumentParser(prog="check")
    ap.add_argument("pid")
    ap.add_argument("--tier", default=os.environ.get("VERIF_TIER", "quick"), choices=["quick", "thorough"])
    ap.add_argument("--seed", type=int, default=int(os.environ.get("VERIF_SEED", "0") or 0))
    ap.add_argument("--replay", default=None)
    ap.add_argument("--jobs", type=int, default=int(os.environ.get("VERIF_JOBS", "16")))
    ap.add_argument("--evidence", default=None)
    ap.add_argument("--only", default=None, help="regex on shard names (debugging; evidence goes to evidence/_partial)")
    a = ap.parse_args(argv)
    pid = a.pid.upper()
    t0 = time.time()
    if a.replay:
        rp = json.load(open(a.replay))
        # the original shard description (incl. its name, which seeds the worker's PRNG) is restored so that modules whose
        # replay re-runs the shard regenerate exactly the same cases
        shards = [dict(rp.get("shard") or {"name": "replay"}, case=rp["case"], key=rp.get("key"))]
        _, meta = plan(pid, rp.get("tier", "quick"), rp.get("seed", 0))
        results, problems = run_workers(pid, rp.get("tier", "quick"), rp.get("seed", 0), shards, 1, 3600, replay=True)
        meta = dict(meta, min_nt={}, required_counters={})
        for r in results:
            r["nt_extra"] = max(2, r.get("nt_extra", 0))
        return merge_and_report(pid, rp.get("tier", "quick"), rp.get("seed", 0), meta, results, problems, t0,
                                os.path.join(VERIF, "evidence", "_replay", f"{pid}.json"))
    shards, meta = plan(pid, a.tier, a.seed)
    evidence = a.evidence or os.path.join(VERIF, "evidence", f"{pid}.json")
    if a.only:
        shards = [s for s in shards if re.search(a.only, s.get("name", ""))]
        evidence = os.path.join(VERIF, "evidence", "_partial", f"{pid}.json")
    timeout_s = float(os.environ.get("VERIF_SHARD_TIMEOUT", "1500" if a.tier == "quick" else "14400"))
    results, problems = run_workers(pid, a.tier, a.seed, shards, a.jobs, timeout_s)
    return merge_and_report(pid, a.tier, a.seed, meta, results, problems, t0, evidence)


if __name__ == "__main__":
    sys.exit(main())
