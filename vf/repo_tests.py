"""Auxiliary workload: the repository's own tests, run in-process under whatever monitors the calling property has installed.

The tests' own assertions are not the oracle (they are counted only); the oracle is the contract / hook that fires while they run.
The tests are taken from the tree under test ($VERIF_REPO/tests), never from a copy.
"""
from __future__ import annotations

import contextlib
import os
import sys


def run_repo_tests(ctx, rel_paths, label="repo_tests"):
    try:
        import pytest
    except ImportError:
        ctx.note("pytest unavailable: repository tests not used as a workload"); return None
    repo = os.environ.get("VERIF_REPO", "/repo")
    paths = [os.path.join(repo, p) for p in rel_paths if os.path.exists(os.path.join(repo, p))]
    if not paths:
        ctx.note(f"{label}: none of {rel_paths} exists in the tree"); return None

    class Plug:
        def __init__(self): self.c = {"passed": 0, "failed": 0, "skipped": 0}; self.failed = []
        def pytest_runtest_logreport(self, report):
            if report.when == "call" or (report.when == "setup" and report.outcome != "passed"):
                self.c[report.outcome] = self.c.get(report.outcome, 0) + 1
                if report.outcome == "failed" and len(self.failed) < 5: self.failed.append(report.nodeid)

    plug = Plug()
    old = os.getcwd(); os.chdir(repo)
    try:
        with open(os.devnull, "w") as dn, contextlib.redirect_stdout(dn), contextlib.redirect_stderr(dn):
            rc = pytest.main(["-q", "-p", "no:cacheprovider", "-p", "no:xdist", "-p", "no:cov", "--timeout=1800", "--rootdir", repo, *paths], plugins=[plug])
    finally:
        os.chdir(old)
    ctx.count(f"{label}_passed", plug.c["passed"]); ctx.count(f"{label}_failed", plug.c["failed"])
    ctx.ev(plug.c["passed"] + plug.c["failed"])
    if plug.c["failed"]:
        ctx.note(f"{label}: {plug.c['failed']} repository test(s) failed under the monitors (their assertions are not this check's oracle), e.g. {plug.failed[:3]}")
    ctx.sample({"kind": label, "paths": rel_paths, "passed": plug.c["passed"], "failed": plug.c["failed"], "pytest_exit": int(rc)})
    return plug.c
