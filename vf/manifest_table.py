"""Per-property claims for MANIFEST.json (see manifest_gen.py)."""


def fill(C, PENDING):
    C("C18", "exploration", "runtime monitoring: set-model oracle over generated interval pairs",
      "Real DateInterval/Interval operations are executed on generated pairs (all Allen relations, one-unit adjacency, range ends, "
      "unbounded ends, every calendar) and every result is compared with Python set/range arithmetic; held means no disagreement on "
      "the pairs listed in the evidence, not a proof.",
      "Trusts Python int/set arithmetic and the day-number mapping (itself monitored by C01).", "§3 C18")
