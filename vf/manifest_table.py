"""Per-property claims for MANIFEST.json (see manifest_gen.py)."""


def fill(C, PENDING):
    C("C18", "exploration", "runtime monitoring: set-model oracle over generated interval pairs",
      "Real DateInterval/Interval operations are executed on generated pairs (all Allen relations, one-unit adjacency, range ends, "
      "unbounded ends, every calendar) and every result is compared with Python set/range arithmetic; held means no disagreement on "
      "the pairs listed in the evidence, not a proof.",
      "Trusts Python int/set arithmetic and the day-number mapping (itself monitored by C01).", "§3 C18")

    C("C03", "exploration", "runtime monitoring: integer reference model + icontract postconditions on the real operators + raise-clause boundary monitor",
      "Every Duration/Instant/Offset factory, operator and accessor is executed on a boundary lattice and seeded magnitudes and compared with Python "
      "int arithmetic; icontract postconditions additionally judge every internal call of the operators made during the workload. Held = no "
      "disagreement on the operations counted in the evidence.",
      "Trusts Python big-int arithmetic; float total_* accessors judged with an ulp tolerance because they are documented as approximate.", "§3 C03")
    C("C10", "exploration", "runtime monitoring: modular-arithmetic model of time of day / local timeline + icontract carry contract",
      "LocalTime/LocalDateTime arithmetic in all calendars is executed for amounts around day multiples and far beyond 64 bits and compared with "
      "divmod on the local timeline; a contract on the internal carry helper judges every call. Sampled, not exhaustive.",
      "Trusts the day<->date mapping (C01) and LocalDate.plus_years/plus_months (C09) for the date part of a period.", "§3 C10")
    C("C12", "exploration", "runtime monitoring: law monitor over keyed value pools + state-fingerprint immutability monitor under reflective calls",
      "All ordered pairs of pooled values (twins via different construction routes, mixed calendars) are judged for ==/!=/hash/order/compare_to/min/max "
      "against model keys; random public calls found by reflection are bracketed by deep state fingerprints of receiver and arguments.",
      "Model keys are int ns/seconds/day numbers + calendar/zone id; the fingerprint stops at CalendarSystem/DateTimeZone objects whose caches may fill.", "§3 C12")
    C("C15", "exploration", "runtime monitoring: differential against the standard library datetime module",
      "Round trips and one-way conversions for date/time/naive+aware datetime/timedelta are compared with the stdlib itself; thorough enumerates all "
      "3,652,059 date ordinals, the rest is boundary + seeded sampling; out-of-range pyoda values must raise.",
      "The stdlib datetime module is the oracle.", "§3 C15")
    C("C17", "exploration", "runtime monitoring: differential against datetime.isoformat/fromisoformat + structural regex monitor",
      "Text from the built-in ISO patterns is read back by the stdlib and stdlib ISO text is parsed by the patterns; widths/fraction/Z shape checked by "
      "anchored regexes. All ordinals (thorough) and all whole-minute offsets are enumerated; times/date-times/instants are sampled; years <= 0 are judged "
      "against the documented fixed-width shape; the ISO patterns are also reached through their standard letters in cultures with other separators, used from "
      "8 threads at once, after a call that raised, and first touched in seeded orders in fresh interpreters (every other one with python -O).",
      "Python 3.12 fromisoformat semantics (fractions truncated to microseconds) as the independent ISO-8601 implementation.", "§3 C17")

    C("C16", "exploration", "runtime monitoring: independent week-1 model + round-trip/advance monitors + differential against date.isocalendar",
      "71 week-year rules are executed in every calendar around year boundaries and range ends; regular rules are compared with an independently "
      "written week-1 model, all rules for round trip, week range and weekly advance; the ISO rule against date.isocalendar (all ordinals in "
      "thorough); weekday navigation against modular arithmetic; n-th weekday of month against enumeration with datetime.date.",
      "Trusts datetime.date.isocalendar/isoweekday, the harness's reading of the regular-rule definition and, for the BCL-style irregular rules, the "
      "published .NET Calendar.GetWeekOfYear algorithm re-implemented in the harness.", "§3 C16")

    C("C01", "exploration", "runtime monitoring: exhaustive day walk with round-trip/order/field/era monitors + reverse triple enumeration + rejection monitor",
      "The real day->date and date->day conversions of every calendar are executed for every day of the advertised range (thorough; year/month "
      "boundary windows and range ends in quick) with monitors for round trip, strict order, field ranges, day-of-year, year length, month-length sums, "
      "weekday, eras and cross-calendar identity; every (y,m,d) triple inside and one step outside the tables is pushed through the constructor; days "
      "and fields outside the range must be rejected. Thorough enumerates the finite space completely (exhaustive: true).",
      "Range derived from public min/max year and month tables; weekday formula (d+3) mod 7 + 1; the internal day constructor is an accelerator "
      "cross-checked against the public route.", "§3 C01")
    C("C02", "exploration", "runtime monitoring: differential against independent published-algorithm references and stdlib ordinals",
      "Year starts, leap flags, month lengths and day<->date conversions of the 17 arithmetic calendars are compared with an independently written "
      "Reingold-Dershowitz implementation (every day in thorough), ISO/Gregorian additionally with all 3,652,059 datetime.date ordinals; a "
      "collision-ordered pass (later year first within a cache slot) makes stale year caches visible.",
      "The published algorithms and epochs as coded in vf/models/calendars_ref.py; a shared misconception between code and reference would go unseen.", "§3 C02")

    C("C09", "exploration", "runtime monitoring: day-number/month-sequence models + algebraic law monitors for Period.between",
      "plus_days/weeks/months/years of the real LocalDate are executed in every calendar at range ends, month ends and seeded dates and compared with the "
      "day-number line, the calendar's month sequence (built without any addition code) and the documented year rule; Period.between for four value "
      "types and sampled unit subsets is judged by its stated laws (bracketing, exact end, sign, maximality, requested units); normalize/to_duration "
      "by the integer total.",
      "Trusts the C01 day mapping; Hebrew year rule as documented on the calculator; Badi month arithmetic inside Ayyam-i-Ha only checked for validity.", "§3 C09")

    C("C11", "exploration", "runtime monitoring: tuple model (instant, offset, calendar, zone) compared at the client boundary",
      "OffsetDateTime/OffsetDate/OffsetTime/ZonedDateTime construction routes, with_offset/with_calendar/adjusters, +/- Duration and differences are executed "
      "in every calendar for instants chosen around local midnight and range ends, offsets to +-18h and seeded zones, and compared with local = "
      "instant + offset in integers.",
      "Trusts the C01 day mapping and the zone's own get_utc_offset (judged by C04/C06).", "§3 C11")

    C("C04", "exploration", "runtime monitoring: interval log recorded at the API boundary + offline integer partition checker + point probes",
      "Every provider zone is walked forward through get_zone_interval (complete to the end of time in thorough; to 2100 plus far windows and the final "
      "years in quick); the recorded log is checked offline for containment, abutment, maximality, unbounded ends, wall = standard + savings and offset "
      "bounds, and hundreds of thousands of point probes (transition edges, 32-day cache-period edges, ends of time, seeded) must agree with the log.",
      "Pure integer checker over what the public API returned; says nothing about whether the intervals are the right ones (that is C06).", "§3 C04")
    C("C05", "exploration", "runtime monitoring: local-mapping oracle computed from the recorded interval log (Appendix A.3)",
      "map_local, single/first/last, at_strictly, at_leniently, resolve_local, at_start_of_day and the ZonedDateTime(local, zone, offset) constructor are "
      "executed for local values displaced by +-1 ns..+-1 day around the logged transitions of every zone and compared with the exact 0/1/2-instant set "
      "derived from the log; sampled (all historical transitions in thorough); plus generated user-defined zones (explicit interval lists with very short "
      "intervals, name-only changes, date-line jumps) and the first/last local day of the supported range.",
      "Trusts the walked interval log (C04/C06 judge it) and integer arithmetic. Open finding C05:beyond-adjacent-interval (DESIGN 6, row 28) is reported as KNOWN-FINDING.", "§3 C05")
    C("C06", "exploration", "runtime monitoring: differential against an independent reader of the database bytes and a datetime-based rule evaluator",
      "Both real NZD files are decoded by a separately written reader; every zone served by the provider is walked and compared interval by interval "
      "(complete to year 9999 in thorough), point probes in random order are judged against the reference, and ids, version, alias maps, fixed "
      "UTC+-hh[:mm[:ss]] ids and validate() are checked.",
      "The NZD format and yearly-rule semantics as understood by the independent reader/evaluator (Appendix A.1/A.2).", "§3 C06")

    C("C14", "exploration", "runtime monitoring: write/read round trip with exact-consumption monitor, independent decoder, compact-form model, byte-exact re-encoding of real zones",
      "Every primitive is written by the real writer and read by the real reader (equality, exact consumption) and also decoded by the independent reader; "
      "millisecond and transition encodings are compared with the documented compact form (all 172,799,999 ms values in thorough); generated yearly rules, "
      "recurrences, alternating maps, precalculated and fixed zones round-trip with identical behaviour; all 724 rule-based zones of both real files must "
      "re-encode to their original bytes, a mismatch being attributed to the field where the bytes first differ.",
      "Codec classes are internal (no public surface): if they disappear the check is inconclusive. Trusts the independent reader's understanding of the format.", "§3 C14")

    C("C20", "fault_enumeration", "runtime monitoring: fault injection into the real database bytes + exception-escape monitor + line-count promptness monitor + RLIMIT_AS",
      "Truncations (every prefix in thorough), single-byte substitutions (every position of every zone body, delivered in a reduced carrier stream, in "
      "thorough), k-byte substitutions, insertions and deletions are applied to both real files; each damaged stream is loaded, its ids listed and its zones "
      "fetched under a memory ceiling; any outcome other than success or InvalidPyodaDataError is a violation keyed by exception type and raising function; "
      "structure-aware faults located with an independent reader (alias-map entries re-pointed into chains/cycles, a yearly rule overwritten with its sibling's bytes, "
      "formatting/control bytes in zone names together with body damage) are part of the model; "
      "a case flagged by the wall watchdog is re-run under a sys.monitoring line counter and violates only if it executes more than 50x the lines the same operations "
      "take on the intact file, or executes no line at all between two progress ticks (blocked).",
      "Fault model limited to a handful of substituted bytes, single insertions/deletions and single truncation; for faults inside one zone field of the full file only the affected zones plus a "
      "seeded sample are fetched.", "§3 C20")

    C("C19", "exploration", "runtime monitoring: sequential model differential + structural deadlock watchdog + offline linearizability checker over recorded histories with yield injection",
      "Seeded operation sequences on a real FakeClock are compared with the (now, auto) model; every operation runs under a watchdog that decides "
      "self-deadlock from the blocked thread's stack, not from a deadline; many short multi-thread histories are recorded at the client boundary with "
      "unique decodable values (auto-advance 1 ns, distinct power-of-two advances) and checked offline for duplicate reads, chain consistency with "
      "real-time order and conservation, with sys.monitoring yield injection inside FakeClock; ZonedClock views and SystemClock bracketing.",
      "Sampled schedules only (evidence reports histories, injections and distinct interleaving signatures); CPython GIL semantics define what an interleaving is.", "§3 C19")

    C("C07", "exploration", "runtime monitoring: generated pattern grammar x cultures x calendars with round-trip, idempotence and determinism monitors",
      "Patterns of all seven types are built from field lists (so the harness knows what each can represent), created in the invariant and seeded ICU "
      "cultures and every calendar, and driven with representable boundary-biased values: parse(format(v)) must equal v; every text a pattern produces, "
      "if it parses, must re-format to itself; all standard single-letter patterns and the built-in round-trip/ISO patterns are included; for fixed-width "
      "numeric patterns every successfully parsed mutant text must re-format to itself; formatting must be deterministic across fresh pattern objects.",
      "A construct the generator never emits is never judged; generator rules (DESIGN §3 C07) decide representability; documented leniencies (case, sign of zero) are normalised.", "§3 C07")
    C("C08", "exploration", "runtime monitoring: exception-escape monitor at the client boundary over mutation corpora of texts and pattern strings",
      "Every create/parse/ParseResult accessor call is wrapped; allowed outcomes are pattern | InvalidPatternError and ParseResult (success with a value that "
      "passes a validity oracle, or failure carrying UnparsableValueError); inputs are valid texts, single-edit mutants with hostile characters, "
      "out-of-range fields written directly, overlong digit runs, 100k-char strings, and malformed pattern strings.",
      "Mutation corpus and grammar only; violations are keyed by exception type and innermost raising function.", "§3 C08")

    C("C13", "exploration", "runtime monitoring: cache-shadow hooks + differential over differently ordered fresh processes + multi-thread trials with sys.monitoring yield injection",
      "The same collision-provoking query multiset (years congruent mod 1024, zone periods congruent mod 512, >500 cultures, first lookups) is executed in K fresh "
      "interpreter processes in different orders and every answer must be identical and equal to the cache-free references; inside every process hooks compare each "
      "served cache entry with an uncached recomputation; short 2-16 thread trials in fresh processes with seeded sleep(0) at the statement boundaries of every code "
      "object of the anchored modules must reproduce the single-threaded answers and hand out one object per id; the caching zone wrapper is compared with the zone it "
      "wraps at every transition and at both ends of every 32-day cache period 1800-2100 of every zone; the ambient culture is checked to be per thread and "
      "format() to follow a writable culture that is customised between calls.",
      "Histories and schedules are sampled (evidence: processes, trials, injections, distinct interleaving signatures); only GIL-level interleavings exist.", "§3 C13")
