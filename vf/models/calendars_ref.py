"""Independent calendar references in plain integers (after Reingold & Dershowitz, "Calendrical Calculations").

Imports nothing from pyoda_time.  Every class offers:
  year_start(y) -> Unix day number of the first day of calendar year y
  months_in_year(y), days_in_month(y, m), is_leap(y), first_month(y) (month number that starts the year)
  to_day(y, m, d), from_day(n) -> (y, m, d)
Month numbers follow the public numbering of the corresponding pyoda_time calendar id.
R.D. (fixed) day 1 = 0001-01-01 proleptic Gregorian; Unix day = R.D. - 719163.
"""
from __future__ import annotations

import bisect
import functools

UNIX_RD = 719163


def greg_leap(y):
    return y % 4 == 0 and (y % 100 != 0 or y % 400 == 0)


def fixed_from_greg(y, m, d):
    return (365 * (y - 1) + (y - 1) // 4 - (y - 1) // 100 + (y - 1) // 400 + (367 * m - 362) // 12
            + (0 if m <= 2 else (-1 if greg_leap(y) else -2)) + d)


def jul_leap(y):  # astronomical year numbering: year 0 = 1 BCE
    return y % 4 == 0


def fixed_from_julian(y, m, d):
    # Julian epoch: R.D. -1 (30 December 0 Gregorian = 1 January 1 Julian)
    return -2 + 365 * (y - 1) + (y - 1) // 4 + (367 * m - 362) // 12 + (0 if m <= 2 else (-1 if jul_leap(y) else -2)) + d


class RefCal:
    """Generic machinery: subclasses supply year_start_rd(y) and month lengths in *year order*."""

    def first_month(self, y):
        return 1

    def month_order(self, y):
        """Month numbers in the order they occur within year y."""
        return list(range(1, self.months_in_year(y) + 1))

    def year_start(self, y):
        return self.year_start_rd(y) - UNIX_RD

    def days_in_year(self, y):
        return self.year_start_rd(y + 1) - self.year_start_rd(y)

    def to_day(self, y, m, d):
        n = self.year_start(y)
        for mm in self.month_order(y):
            if mm == m:
                return n + d - 1
            n += self.days_in_month(y, mm)
        raise ValueError((y, m, d))

    def year_of_day(self, n):
        # estimate then correct
        y = self.estimate_year(n)
        while self.year_start(y) > n:
            y -= 1
        while self.year_start(y + 1) <= n:
            y += 1
        return y

    def from_day(self, n):
        y = self.year_of_day(n)
        r = n - self.year_start(y)
        for mm in self.month_order(y):
            dim = self.days_in_month(y, mm)
            if r < dim:
                return (y, mm, r + 1)
            r -= dim
        raise AssertionError("day beyond year length")


class Gregorian(RefCal):
    ML = (31, 28, 31, 30, 31, 30, 31, 31, 30, 31, 30, 31)

    def months_in_year(self, y): return 12
    def is_leap(self, y): return greg_leap(y)
    def days_in_month(self, y, m): return 29 if (m == 2 and greg_leap(y)) else self.ML[m - 1]
    def year_start_rd(self, y): return fixed_from_greg(y, 1, 1)
    def estimate_year(self, n): return (n + UNIX_RD) * 400 // 146097 + 1


class Julian(Gregorian):
    def is_leap(self, y): return jul_leap(y)
    def days_in_month(self, y, m): return 29 if (m == 2 and jul_leap(y)) else self.ML[m - 1]
    def year_start_rd(self, y): return fixed_from_julian(y, 1, 1)
    def estimate_year(self, n): return (n + UNIX_RD + 2) * 4 // 1461 + 1


COPTIC_EPOCH = fixed_from_julian(284, 8, 29)


class Coptic(RefCal):
    def months_in_year(self, y): return 13
    def is_leap(self, y): return y % 4 == 3
    def days_in_month(self, y, m): return 30 if m <= 12 else (6 if self.is_leap(y) else 5)
    def year_start_rd(self, y): return COPTIC_EPOCH - 1 + 365 * (y - 1) + y // 4 + 1
    def estimate_year(self, n): return (n + UNIX_RD - COPTIC_EPOCH) * 4 // 1461 + 1


ISLAMIC_EPOCH_CIVIL = fixed_from_julian(622, 7, 16)
LEAPS = {
    "Base15": {2, 5, 7, 10, 13, 15, 18, 21, 24, 26, 29},
    "Base16": {2, 5, 7, 10, 13, 16, 18, 21, 24, 26, 29},
    "Indian": {2, 5, 8, 10, 13, 16, 19, 21, 24, 27, 29},
    "HabashAlHasib": {2, 5, 8, 11, 13, 16, 19, 21, 24, 27, 30},
}


class Islamic(RefCal):
    def __init__(self, pattern, astronomical):
        self.leaps = LEAPS[pattern]
        self.epoch = ISLAMIC_EPOCH_CIVIL - (1 if astronomical else 0)
        self.cum = [0]
        for k in range(1, 31):
            self.cum.append(self.cum[-1] + (355 if k in self.leaps else 354))

    def months_in_year(self, y): return 12
    def is_leap(self, y): return ((y - 1) % 30 + 1) in self.leaps
    def days_in_month(self, y, m): return 30 if (m % 2 == 1 or (m == 12 and self.is_leap(y))) else 29
    def year_start_rd(self, y):
        c, k = divmod(y - 1, 30)
        return self.epoch + c * self.cum[30] + self.cum[k]
    def estimate_year(self, n): return (n + UNIX_RD - self.epoch) * 30 // 10631 + 1


HEBREW_EPOCH = fixed_from_julian(-3760, 10, 7)


def heb_leap(y):
    return (7 * y + 1) % 19 < 7


@functools.lru_cache(maxsize=None)
def heb_elapsed(y):
    months = (235 * y - 234) // 19
    parts = 12084 + 13753 * months
    day = 29 * months + parts // 25920
    return day + 1 if (3 * (day + 1)) % 7 < 3 else day


@functools.lru_cache(maxsize=None)
def heb_new_year(y):
    ny0, ny1, ny2 = heb_elapsed(y - 1), heb_elapsed(y), heb_elapsed(y + 1)
    delay = 2 if ny2 - ny1 == 356 else (1 if ny1 - ny0 == 382 else 0)
    return HEBREW_EPOCH + ny1 + delay


class Hebrew(RefCal):
    """civil=True: month 1 = Tishri (Adar II = 7 in leap years).  civil=False (scriptural): month 1 = Nisan,
    Tishri = 7, Adar (I) = 12, Adar II = 13; the year begins with month 7."""

    def __init__(self, civil):
        self.civil = civil

    def months_in_year(self, y): return 13 if heb_leap(y) else 12
    def is_leap(self, y): return heb_leap(y)
    def year_start_rd(self, y): return heb_new_year(y)
    def estimate_year(self, n): return int((n + UNIX_RD - HEBREW_EPOCH) * 98496 // 35975351) + 1

    def _civil_lengths(self, y):
        L = heb_new_year(y + 1) - heb_new_year(y)
        hesh = 30 if L % 10 == 5 else 29
        kis = 29 if L % 10 == 3 else 30
        out = [30, hesh, kis, 29, 30]                       # Tishri, Heshvan, Kislev, Tevet, Shevat
        out += [30, 29] if heb_leap(y) else [29]            # Adar I (30) + Adar II (29), or Adar (29)
        out += [30, 29, 30, 29, 30, 29]                     # Nisan .. Elul
        return out

    def month_order(self, y):
        n = self.months_in_year(y)
        if self.civil:
            return list(range(1, n + 1))
        return list(range(7, n + 1)) + list(range(1, 7))    # Tishri(7)..Adar/AdarII, then Nisan(1)..Elul(6)

    def first_month(self, y):
        return 1 if self.civil else 7

    def days_in_month(self, y, m):
        return self._civil_lengths(y)[self.month_order(y).index(m)]


PERSIAN_EPOCH_ARITH = fixed_from_julian(622, 3, 19)
PERSIAN_EPOCH_SIMPLE = fixed_from_greg(622, 3, 21)


class PersianBase(RefCal):
    def months_in_year(self, y): return 12
    def days_in_month(self, y, m): return 31 if m <= 6 else (30 if m <= 11 else (30 if self.is_leap(y) else 29))


class PersianArithmetic(PersianBase):
    """Birashk's 2820-year cycle (valid from year 475, the anchor of the cycle)."""

    def _parts(self, y):
        yy = y - 474
        return yy // 2820, yy % 2820 + 474

    def is_leap(self, y):
        _, year = self._parts(y)
        return ((year + 38) * 31) % 128 < 31

    def year_start_rd(self, y):
        c, year = self._parts(y)
        return PERSIAN_EPOCH_ARITH - 1 + 1029983 * c + 365 * (year - 1) + (31 * year - 5) // 128 + 1

    def estimate_year(self, n): return (n + UNIX_RD - PERSIAN_EPOCH_ARITH) * 2820 // 1029983 + 1


class PersianSimple(PersianBase):
    LEAP = {1, 5, 9, 13, 17, 22, 26, 30}

    def __init__(self):
        self.cum = [0]
        for k in range(1, 34):
            self.cum.append(self.cum[-1] + (366 if (k % 33) in self.LEAP else 365))

    def is_leap(self, y): return y % 33 in self.LEAP

    def year_start_rd(self, y):
        c, k = divmod(y - 1, 33)
        return PERSIAN_EPOCH_SIMPLE + c * self.cum[33] + self.cum[k]

    def estimate_year(self, n): return (n + UNIX_RD - PERSIAN_EPOCH_SIMPLE) * 33 // 12053 + 1


def reference_for(cid: str):
    """Reference for a pyoda_time calendar id, or None when the calendar has no published arithmetic (table driven)."""
    if cid in ("ISO", "Gregorian"): return Gregorian()
    if cid == "Julian": return Julian()
    if cid == "Coptic": return Coptic()
    if cid.startswith("Hijri "):
        epoch, pattern = cid[len("Hijri "):].split("-")
        return Islamic(pattern, astronomical=(epoch == "Astronomical"))
    if cid == "Hebrew Civil": return Hebrew(True)
    if cid == "Hebrew Scriptural": return Hebrew(False)
    if cid == "Persian Simple": return PersianSimple()
    if cid == "Persian Arithmetic": return PersianArithmetic()
    return None


MIN_YEAR_OVERRIDE = {"Persian Arithmetic": 475}
