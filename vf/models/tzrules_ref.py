"""Independent evaluator of the yearly rules stored in an NZD zone tail (DESIGN Appendix A.2).

Uses only datetime.date/calendar arithmetic; imports nothing from pyoda_time.  Instants are integer ns since the Unix epoch.
"""
from __future__ import annotations

import calendar
import datetime

NS = 10**9
DAY_NS = 86400 * NS
INST_MAX_NS = (datetime.date(9999, 12, 31).toordinal() - 719163 + 1) * DAY_NS - 1
INST_MIN_NS = -((719163 - datetime.date(1, 1, 1).toordinal()) + 9999 * 365 + 2424 + 1) * DAY_NS  # not used for rules; see intervals()


def occurrence_local_ns(yo, year):
    m = yo["month"]; dom = yo["dom"]
    dim = calendar.monthrange(year, m)[1]
    day = dom if dom > 0 else dim + dom + 1
    if m == 2 and dom == 29 and not calendar.isleap(year):
        day = 28
    d = datetime.date(year, m, day).toordinal()
    if yo["dow"] != 0:
        cur = datetime.date.fromordinal(d).isoweekday()
        if cur != yo["dow"]:
            diff = yo["dow"] - cur
            if diff > 0:
                if not yo["adv"]:
                    diff -= 7
            elif yo["adv"]:
                diff += 7
            d += diff
    if yo["addday"]:
        d += 1
    return (d - 719163) * DAY_NS + yo["ms"] * 10**6


def rule_offset_ms(yo, std, sav):
    return {0: 0, 1: std + sav, 2: std}[yo["mode"]]


def transitions(tail, y0, y1):
    """[(instant_ns, 'dst'|'std')] for rule years y0..y1, sorted."""
    out = []
    for y in range(max(1, y0), min(9999, y1) + 1):
        t = occurrence_local_ns(tail["dyo"], y) - rule_offset_ms(tail["dyo"], tail["std"], 0) * 10**6
        out.append((t, "dst"))
        t = occurrence_local_ns(tail["syo"], y) - rule_offset_ms(tail["syo"], tail["std"], tail["sav"]) * 10**6
        out.append((t, "std"))
    out.sort()
    return out


def year_of_ns(ns):
    return datetime.date.fromordinal(max(1, min(3652059, ns // DAY_NS + 719163))).year


def _rec(tail, kind):
    if kind == "dst":
        return (tail["std"] + tail["sav"], tail["sav"], tail["dname"])
    return (tail["std"], 0, tail["sname"])


def tail_intervals(tail, from_ns, to_ns):
    """Reference intervals (start, end|None, wall_ms, savings_ms, name) of the recurring tail that intersect
    [from_ns, to_ns]; the first one starts at the last transition <= from_ns (or from_ns itself when it is the seam),
    the interval after the last transition <= INST_MAX is unbounded (end None)."""
    y0 = year_of_ns(from_ns) - 1; y1 = year_of_ns(min(to_ns, INST_MAX_NS)) + 1
    tr = [t for t in transitions(tail, y0 - 1, y1 + 1) if t[0] <= INST_MAX_NS]
    before = [t for t in tr if t[0] <= from_ns]
    after = [t for t in tr if t[0] > from_ns]
    if before:
        cur = before[-1][1]; start = before[-1][0]
    else:
        cur = "std" if (after and after[0][1] == "dst") else "dst"; start = from_ns
    out = []
    for t, k in after:
        if start > to_ns:
            break
        w, sv, nm = _rec(tail, cur)
        out.append((start, t, w, sv, nm)); start = t; cur = k
    else:
        if y1 + 1 >= 9999 or not after:
            w, sv, nm = _rec(tail, cur)
            out.append((start, None, w, sv, nm))
    return out


def expected_intervals(z, upto_ns=None, requested_id=None):
    """Complete reference interval list of a decoded zone (see nzd_ref.zone) from the start of time to `upto_ns`
    (default: the end of time).  Entries: (start|None, end|None, wall_ms, savings_ms, name)."""
    if z["fixed"]:
        return [(None, None, z["offset"], 0, z["name"] if z["name"] is not None else (requested_id or z["id"]))]
    out = []
    for s, e, name, wall, sav in z["periods"]:
        out.append((None if s == "-inf" else s, None if e == "+inf" else e, wall, sav, name))
    tail = z["tail"]
    if tail:
        seam = out[-1][1]
        lim = INST_MAX_NS if upto_ns is None else upto_ns
        # state at the seam is the opposite of the first later transition
        ti = tail_intervals_from_seam(tail, seam, lim)
        out += ti
    return out


def tail_intervals_from_seam(tail, seam, lim):
    y0 = year_of_ns(seam) - 1; y1 = year_of_ns(min(lim, INST_MAX_NS)) + 1
    tr = [t for t in transitions(tail, y0 - 1, y1 + 1) if seam < t[0] <= INST_MAX_NS]
    cur = "std" if (tr and tr[0][1] == "dst") else "dst"
    out = []; start = seam
    for t, k in tr:
        if start > lim:
            return out
        w, sv, nm = _rec(tail, cur)
        out.append((start, t, w, sv, nm)); start = t; cur = k
    if y1 + 1 >= 9999 or not tr:
        w, sv, nm = _rec(tail, cur)
        out.append((start, None, w, sv, nm))
    return out
