"""Independent reader of the NZD tz database container (DESIGN Appendix A.1). Imports nothing from pyoda_time.

All instants are integer nanoseconds since the Unix epoch; '-inf'/'+inf' mark the ends of time.
"""
import struct, io, sys
MS_DAY=86400000
class R:
    def __init__(s,b,pool=None): s.b=b; s.i=0; s.pool=pool
    def byte(s):
        if s.i>=len(s.b): raise EOFError
        v=s.b[s.i]; s.i+=1; return v
    def more(s): return s.i<len(s.b)
    def varint(s):
        r=0; sh=0
        while True:
            x=s.byte(); r|=(x&0x7f)<<sh; sh+=7
            if x<0x80: return r
    count=varint
    def scount(s):
        v=s.varint(); return (v>>1) ^ -(v&1)
    def string(s):
        if s.pool is None:
            n=s.count(); d=s.b[s.i:s.i+n]; assert len(d)==n; s.i+=n; return d.decode('utf-8')
        return s.pool[s.count()]
    def millis(s):
        f=s.byte()
        if f&0x80==0: m=f*1800000
        else:
            flag=f&0xE0; d=f&0x1F
            if flag==0x80: m=((d<<8)+s.byte())*60000
            elif flag==0xA0: m=((d<<16)+(s.byte()<<8)+s.byte())*1000
            elif flag==0xC0: m=(d<<24)+(s.byte()<<16)+(s.byte()<<8)+s.byte()
            else: raise ValueError('flag')
        return m-MS_DAY
    def transition(s, prev):
        v=s.count()
        if v<128:
            if v==0: return '-inf'
            if v==1: return '+inf'
            if v==2:
                x=int.from_bytes(bytes(s.byte() for _ in range(8)),'big',signed=True); return x*100  # ticks->ns
            raise ValueError('marker')
        if v<(1<<21):
            return prev+v*3600*10**9
        EPOCH1800=-5364662400  # seconds 1800-01-01 rel. unix
        return (EPOCH1800+v*60)*10**9
def read_fields(data):
    ver=struct.unpack('<i',data[:4])[0]; assert ver==0
    r=R(data); r.i=4; out=[]
    while r.more():
        fid=r.byte(); n=r.count(); out.append((fid,data[r.i:r.i+n])); r.i+=n
    return out
def parse(data):
    fields=read_fields(data); pool=None; zones={}; idmap=None; version=None
    for fid,body in fields:
        if fid==0:
            r=R(body); n=r.count(); pool=[r.string() for _ in range(n)]
        elif fid==1:
            r=R(body,pool); zid=r.string(); zones[zid]=body
        elif fid==2:
            version=R(body).string()
        elif fid==3:
            r=R(body,pool); n=r.count(); idmap={}
            for _ in range(n):
                k=r.string(); idmap[k]=r.string()
    return pool,zones,idmap,version
def year_offset(r):
    flags=r.byte(); mode=flags>>5; dow=(flags>>2)&7; adv=bool(flags&2); addday=bool(flags&1)
    month=r.count(); dom=r.scount(); ms=r.millis()+0
    return dict(mode=mode,dow=dow,adv=adv,addday=addday,month=month,dom=dom,ms=ms)
def zone(body,pool):
    r=R(body,pool); zid=r.string(); typ=r.byte()
    if typ==1:
        off=r.millis(); name=r.string() if r.more() else None  # older files store no name: the zone is named after the id it is requested by
        return dict(id=zid,fixed=True,offset=off,name=name)
    n=r.count(); periods=[]; start=r.transition(None)
    for _ in range(n):
        name=r.string(); wall=r.millis(); sav=r.millis(); nxt=r.transition(start if start not in('-inf','+inf') else None)
        periods.append((start,nxt,name,wall,sav)); start=nxt
    tail=None
    if r.byte()==1:
        std=r.millis(); sname=r.string(); syo=year_offset(r); dname=r.string(); dyo=year_offset(r); sav=r.millis()
        tail=dict(std=std,sname=sname,syo=syo,dname=dname,dyo=dyo,sav=sav)
    assert not r.more(), (zid, r.i, len(body))
    return dict(id=zid,fixed=False,periods=periods,tail=tail)


def load(data):
    """Parse a whole file: returns dict(version, pool, idmap, zone_ids (canonical, file order), zones {id: decoded zone}, raw {id: field body})."""
    pool, raw, idmap, version = parse(data)
    zones = {zid: zone(body, pool) for zid, body in raw.items()}
    return {"version": version, "pool": pool, "idmap": idmap or {}, "zones": zones, "raw": raw}
