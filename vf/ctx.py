"""Per-shard recording context used by every property module (runs inside a worker)."""
from __future__ import annotations

import collections
import hashlib
import random
import time
import traceback

MAX_CASES_PER_KEY = 3
MAX_SAMPLES = 4
NT_HASH_CAP = 150_000


def h64(x) -> int:
    return int.from_bytes(hashlib.blake2b(repr(x).encode(), digest_size=8).digest(), "big")


def derive_seed(*parts) -> int:
    return h64(parts) & 0x7FFFFFFF


class Ctx:
    def __init__(self, pid: str, shard: dict, tier: str, seed: int):
        self.pid = pid
        self.shard = shard
        self.tier = tier
        self.seed = seed
        self.rng = random.Random(derive_seed(pid, seed, shard.get("name", "")))
        self.evaluations = 0
        self.nt: set = set()
        self.nt_extra = 0  # provably distinct cases counted without storing a key
        self.counters: collections.Counter = collections.Counter()
        self.exc_types: collections.Counter = collections.Counter()
        self.violations: dict[str, dict] = {}
        self.samples: list = []
        self.inconclusive: list[str] = []
        self.notes: list[str] = []
        self.t0 = time.time()
        self.thorough = tier == "thorough"

    # --- accounting ---
    def ev(self, n: int = 1) -> None:
        self.evaluations += n

    def key(self, k) -> None:
        self.nt.add(k)

    def distinct(self, n: int = 1) -> None:
        self.nt_extra += n

    def count(self, name: str, n: int = 1) -> None:
        self.counters[name] += n

    def exc(self, e: BaseException) -> None:
        self.exc_types[type(e).__name__] += 1

    def sample(self, obj, cap: int = MAX_SAMPLES) -> None:
        if len(self.samples) < cap:
            self.samples.append(obj)

    def note(self, s: str) -> None:
        if s not in self.notes:
            self.notes.append(s)

    def inconc(self, why: str) -> None:
        if why not in self.inconclusive:
            self.inconclusive.append(why)

    # --- verdicts ---
    def V(self, key: str, what: str, case: dict, observed=None, expected=None) -> None:
        """Record a violation under mechanism key `key`."""
        v = self.violations.get(key)
        if v is None:
            v = self.violations[key] = {"key": key, "count": 0, "cases": []}
        v["count"] += 1
        if len(v["cases"]) < MAX_CASES_PER_KEY:
            v["cases"].append({"what": what, "case": case, "observed": _j(observed), "expected": _j(expected),
                               "shard": {k: v_ for k, v_ in self.shard.items() if k != "case"}})

    def result(self) -> dict:
        nt_hashes = None
        if len(self.nt) <= NT_HASH_CAP:
            nt_hashes = [h64(k) for k in self.nt]
        return {
            "shard": self.shard.get("name", ""),
            "evaluations": self.evaluations,
            "nt_count": len(self.nt),
            "nt_hashes": nt_hashes,
            "nt_extra": self.nt_extra,
            "counters": dict(self.counters),
            "exc_types": dict(self.exc_types),
            "violations": list(self.violations.values()),
            "samples": self.samples,
            "inconclusive": self.inconclusive,
            "notes": self.notes,
            "wall_s": round(time.time() - self.t0, 3),
        }


def _j(x):
    """Make x JSON-able (best effort, by repr)."""
    if x is None or isinstance(x, (bool, int, str)):
        return x
    if isinstance(x, float):
        return x if x == x and abs(x) != float("inf") else repr(x)
    if isinstance(x, (list, tuple)):
        return [_j(i) for i in x]
    if isinstance(x, dict):
        return {str(k): _j(v) for k, v in x.items()}
    try:
        return repr(x)
    except Exception:  # noqa: BLE001
        return f"<unreprable {type(x).__name__}>"


def exc_key(e: BaseException, skip_utility: bool = True) -> str:
    """'<Type>@<innermost pyoda_time function outside utility/>'."""
    tb = traceback.extract_tb(e.__traceback__)
    where = "?"
    for fr in reversed(tb):
        fn = fr.filename.replace("\\", "/")
        if "/pyoda_time/" in fn:
            if skip_utility and "/pyoda_time/utility/" in fn:
                continue
            mod = fn.split("/pyoda_time/")[1].rsplit(".", 1)[0].replace("/", ".")
            where = f"{mod}.{fr.name}"
            break
    return f"{type(e).__name__}@{where}"
