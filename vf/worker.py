"""Worker entry: python -m vf.worker <PID> <tier> <seed> <shard-json|@file> [--replay]

Runs one shard of one property against the tree on PYTHONPATH and prints a single JSON
line prefixed with '@@RESULT ' on stdout.
"""
from __future__ import annotations

import faulthandler
import importlib
import json
import os
import resource
import sys
import traceback


def main() -> int:
    pid, tier, seed, shard_s = sys.argv[1:5]
    replay = "--replay" in sys.argv[5:]
    if shard_s.startswith("@"):
        shard = json.load(open(shard_s[1:]))
    else:
        shard = json.loads(shard_s)
    faulthandler.enable()
    mem = int(os.environ.get("VERIF_WORKER_MEM_GB", "6"))
    try:
        resource.setrlimit(resource.RLIMIT_AS, (mem << 30, mem << 30))
    except Exception:  # noqa: BLE001
        pass
    sys.setrecursionlimit(10000)
    from vf.ctx import Ctx

    ctx = Ctx(pid, shard, tier, int(seed))
    try:
        mod = importlib.import_module(f"vf.props.{pid.lower()}")
        if replay:
            mod.replay(ctx, shard["case"])
        else:
            mod.run(ctx, shard)
    except BaseException as e:  # noqa: BLE001
        traceback.print_exc()
        ctx.inconc(f"worker crashed: {type(e).__name__}: {e}")
    out = ctx.result()
    sys.stdout.write("\n@@RESULT " + json.dumps(out, default=repr) + "\n")
    sys.stdout.flush()
    return 0


if __name__ == "__main__":
    sys.exit(main())
