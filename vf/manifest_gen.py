"""Regenerate MANIFEST.json from the table below: python3 -m vf.manifest_gen (stdlib only)."""
from __future__ import annotations

import json
import os

VERIF = os.path.dirname(os.path.dirname(os.path.abspath(__file__)))

# pid -> (category, technique, level text, level note, design ref)
CHECKS: dict[str, tuple[str, str, str, str, str]] = {}
PENDING: dict[str, str] = {}


def C(pid, category, technique, text, note, ref):
    CHECKS[pid] = (category, technique, text, note, ref)


from .manifest_table import fill  # noqa: E402

fill(C, PENDING)


def main() -> None:
    props = [json.loads(l) for l in open(os.path.join(VERIF, "properties.jsonl"))]
    checks = []
    na = []
    for p in props:
        pid = p["id"]
        if pid in CHECKS and os.path.exists(os.path.join(VERIF, "vf", "props", pid.lower() + ".py")):
            cat, tech, text, note, ref = CHECKS[pid]
            checks.append({
                "property_id": pid,
                "quick_cmd": f"./check {pid} --tier quick",
                "thorough_cmd": f"./check {pid} --tier thorough",
                "evidence_file": f"evidence/{pid}.json",
                "replay_cmd_template": f"./check {pid} --replay {{path}}",
                "engine": f"vf/props/{pid.lower()}.py",
                "level_claimed": {"category": cat, "text": text, "design_ref": ref},
                "level_note": note,
                "technique": tech,
            })
        else:
            na.append({"property_id": pid, "reason": PENDING.get(pid, "check not built yet in this round (runtime monitoring applies; see DESIGN.md)")})
    fixes = []; opened = []
    kf = os.path.join(VERIF, "known_findings.json")
    if os.path.exists(kf):
        for e in json.load(open(kf)):
            if str(e.get("status", "")).startswith("fixed"):
                fixes.append(e["status"])
            elif e.get("status") == "open":
                opened.append(f"open: property={e['property']} key={e['key']} {e.get('what', '')[:400]}")
    m = {
        "version": 1,
        "setup_cmd": "./setup",
        "hooks": {
            "guard": "PYODA_TIME_VERIF",
            "enable": "none needed: monitors attach from outside the package (wrappers, icontract decorators, sys.monitoring); "
                      "the guard name is reserved and read by nothing in /repo",
            "baseline_off_cmd": "cd /repo && /venv/bin/python -m pytest -ra -q -p no:cacheprovider --timeout=900 --continue-on-collection-errors",
            "source_commits": [],
            "add_only": True,
        },
        "engines": [
            {"name": "vf", "path": "vf/", "serves_properties": [c["property_id"] for c in checks],
             "kind_free_text": "runtime monitoring: generated/hostile workloads against the real code in subprocess workers; oracles are "
                               "independent integer/reference models, runtime contracts (icontract), exception-escape and hang monitors, "
                               "sys.monitoring yield injection, offline checkers over recorded histories"},
        ],
        "checks": checks,
        "notes": "All checks import pyoda_time from /repo (VERIF_REPO overrides) via PYTHONPATH with ICU on the loader path of the worker only. "
                 "Exit 0 held-on-observed, 1 violation (VIOLATION line + replay file), 2 inconclusive. Known-findings file: known_findings.json "
                 "(read only at run time; open entries are printed as KNOWN-FINDING lines and do not fail the check). Open findings: "
                 + ("; ".join(opened) if opened else "none") + ". fix: commits in /repo: "
                 + ("; ".join(fixes) if fixes else "none yet"),
        "not_applicable": na,
    }
    json.dump(m, open(os.path.join(VERIF, "MANIFEST.json"), "w"), indent=1)
    print(f"MANIFEST.json: {len(checks)} checks, {len(na)} not_applicable")


if __name__ == "__main__":
    main()
