"""python -m vf.plan <PID> <tier> <seed>: print the shard plan and module metadata as JSON."""
from __future__ import annotations

import importlib
import json
import sys


def main() -> int:
    pid, tier, seed = sys.argv[1], sys.argv[2], int(sys.argv[3])
    mod = importlib.import_module(f"vf.props.{pid.lower()}")
    shards = mod.shards(tier, seed)
    meta = {
        "level": getattr(mod, "LEVEL", "exploration"),
        "rule": getattr(mod, "RULE", ""),
        "assumptions": getattr(mod, "ASSUMPTIONS", []),
        "min_nt": getattr(mod, "MIN_NT", {"quick": 50, "thorough": 200}),
        "required_counters": getattr(mod, "REQUIRED", {}),
        "exhaustive": getattr(mod, "EXHAUSTIVE", {}),
    }
    sys.stdout.write("\n@@PLAN " + json.dumps({"shards": shards, "meta": meta}) + "\n")
    return 0


if __name__ == "__main__":
    sys.exit(main())
