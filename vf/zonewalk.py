"""Walk a real DateTimeZone through its public API and record its intervals as plain integers (client-boundary log)."""
from __future__ import annotations

import bisect

NS = 10**9
DAY = 86400 * NS


def rec_of(zi):
    from vf import gen
    s = gen.inst_ns(zi.start) if zi.has_start else None
    e = gen.inst_ns(zi.end) if zi.has_end else None
    return (s, e, zi.wall_offset.seconds, zi.savings.seconds, zi.standard_offset.seconds, zi.name)


def walk(zone, start_ns=None, until_ns=None, on_step=None, max_steps=200000):
    """Forward walk: cur = start (default Instant.min_value); zi = zone.get_zone_interval(cur); cur = zi.end ...
    Returns (log, problems).  log entries: (start|None, end|None, wall_s, savings_s, standard_s, name).
    problems: list of (kind, detail) found while walking (interval not containing the instant asked for)."""
    from pyoda_time import Instant
    from vf import gen
    cur = Instant.min_value if start_ns is None else gen.ns_inst(start_ns)
    cur_ns = gen.INST_MIN_NS if start_ns is None else start_ns
    log = []; problems = []
    steps = 0
    while True:
        zi = zone.get_zone_interval(cur)
        r = rec_of(zi)
        lo = -10**40 if r[0] is None else r[0]; hi = 10**40 if r[1] is None else r[1]
        if not (lo <= cur_ns < hi) or cur not in zi:
            problems.append(("interval-does-not-contain-instant", {"asked": cur_ns, "interval": [r[0], r[1]]}))
            if r[1] is None or r[1] <= cur_ns:
                log.append(r); break
        log.append(r)
        if on_step is not None:
            on_step(zi, r)
        steps += 1
        if r[1] is None or (until_ns is not None and r[1] > until_ns) or steps >= max_steps:
            break
        cur = zi.end; cur_ns = r[1]
    return log, problems


class LogIndex:
    """Binary-search index over one contiguous log."""

    def __init__(self, log):
        self.log = log
        self.starts = [(-10**40 if r[0] is None else r[0]) for r in log]

    def find(self, ns):
        i = bisect.bisect_right(self.starts, ns) - 1
        if i < 0:
            return None
        r = self.log[i]
        if r[1] is not None and ns >= r[1]:
            return None
        return r

    def covers(self, ns):
        return self.find(ns) is not None


def partition_problems(log, first_is_start_of_time, last_is_end_of_time):
    """Offline checker over a contiguous log (pure integers)."""
    out = []
    if first_is_start_of_time and log and log[0][0] is not None:
        out.append(("first-interval-has-start", log[0]))
    if last_is_end_of_time and log and log[-1][1] is not None:
        out.append(("last-interval-has-end", log[-1]))
    for a, b in zip(log, log[1:]):
        if a[1] != b[0]:
            out.append(("gap-or-overlap", [a, b]))
        if a[2:] == b[2:]:
            out.append(("adjacent-intervals-equal", [a, b]))
    for r in log:
        if r[0] is not None and r[1] is not None and r[0] >= r[1]:
            out.append(("empty-or-inverted-interval", r))
        if r[2] != r[4] + r[3]:
            out.append(("wall-not-standard-plus-savings", r))
    return out
