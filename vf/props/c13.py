"""C13 — answers do not depend on call history or on concurrent use (DESIGN §3 C13).

(a) cache-shadow hooks inside every child, (b) history differential across FRESH interpreter processes executing the same
query multiset in different collision-provoking orders + cache-free references, (c) short multi-thread trials in fresh
processes with sys.monitoring yield injection on every code object of the anchored modules.
"""
from __future__ import annotations

import json
import os
import subprocess
import sys
import tempfile

LEVEL = "exploration"
RULE = ("queries built to collide: years congruent mod 1024 in one calculator (both Hebrew numberings share a cache), instants whose 32-day period numbers are congruent "
        "mod 512 in one zone, >500 cultures then a revisit (least-recently-added eviction), first lookups of aliases/canonical ids and calendar ids; the same multiset "
        "is executed in K fresh processes in ascending, descending, collision-interleaved and seeded random order; concurrent trials: 2-16 threads released by a "
        "barrier in a fresh process, switch interval 1 us, seeded sleep(0) at statement boundaries of all code objects of the anchored modules; distinct = "
        "distinct colliding slot groups + distinct interleaving signatures")
ASSUMPTIONS = ["CPython GIL: interleavings exist only at bytecode boundaries", "references: vf/models/calendars_ref.py for year starts, nzd_ref/tzrules_ref for zone intervals",
               "schedules and histories are sampled; evidence reports how many distinct interleavings were observed"]
MIN_NT = {"quick": 40, "thorough": 300}
REQUIRED = {"any": ["history_processes", "history_answers_compared", "reference_comparisons", "shadow_evaluations", "concurrent_trials", "concurrent_answers_compared", "identity_checks", "yield_injections"]}

NS = 10**9
DAY = 86400 * NS
MODULES = ["pyoda_time.calendars._year_start_cache_entry", "pyoda_time.calendars._year_month_day_calculator", "pyoda_time.calendars._hebrew_scriptural_calculator",
           "pyoda_time.calendars._hebrew_year_month_day_calculator", "pyoda_time.time_zones._caching_zone_interval_map", "pyoda_time.time_zones._cached_date_time_zone",
           "pyoda_time.time_zones._date_time_zone_cache", "pyoda_time._date_time_zone_providers", "pyoda_time._date_time_zone", "pyoda_time._calendar_system",
           "pyoda_time.utility._cache", "pyoda_time.globalization._pyoda_format_info", "pyoda_time.text._fixed_format_info_pattern_parser",
           "pyoda_time._compatibility._culture_info", "pyoda_time._compatibility._culture_data"]


def shards(tier, seed):
    q = tier == "quick"
    out = [{"name": f"history:{i}", "part": "history", "K": 4 if q else 8, "scale": 1 if q else 4, "cultures": i == 0} for i in range(3 if q else 8)]
    out += [{"name": f"concurrent:{i}", "part": "conc", "trials": 3 if q else 75, "inject": True} for i in range(10 if q else 14)]
    out += [{"name": f"concurrent-plain:{i}", "part": "conc", "trials": 4 if q else 40, "inject": False} for i in range(2)]
    # the caching wrapper against the zone it wraps, at the first / last / a seeded instant of EVERY 32-day cache period 1800-2100 of every zone
    k = 6 if q else 12
    out += [{"name": f"zone-periods:{i}", "part": "periods", "i": i, "k": k, "probes": 3 if q else 6} for i in range(k)]
    out += [{"name": "culture-state", "part": "culture", "rounds": 40 if q else 400}]
    return out


def run_child(spec, timeout=1200):
    from vf import env as venv
    f = tempfile.NamedTemporaryFile("w", suffix=".json", prefix="vf-c13-", delete=False)
    json.dump(spec, f); f.close()
    try:
        r = subprocess.run([sys.executable, "-m", "vf.props.c13_child", f.name], capture_output=True, text=True, timeout=timeout, env=dict(os.environ), cwd=venv.VERIF)
    except subprocess.TimeoutExpired:
        return None, "child watchdog timeout"
    finally:
        try:
            os.unlink(f.name)
        except OSError:
            pass
    for line in r.stdout.splitlines():
        if line.startswith("@@CHILD "):
            return json.loads(line[len("@@CHILD "):]), None
    return None, f"child exited rc={r.returncode}: {r.stderr[-600:]}"


def gen_queries(rng, scale, with_cultures):
    """Returns (queries, slot_of) where slot_of[i] is a colliding-slot label for ordering and coverage keys."""
    from pyoda_time import CalendarSystem, DateTimeZoneProviders
    from vf import gen
    Q = []; slot = []
    cals = [c for c in gen.calendars()]
    # years congruent mod 1024; both Hebrew numberings share one global cache
    chosen = [gen.cal_by_id("Hebrew Civil"), gen.cal_by_id("Hebrew Scriptural"), gen.cal_by_id("ISO"), gen.cal_by_id("Julian")] + rng.sample(cals, 3)
    for r in rng.sample(range(1024), 3 * scale) + [0, 1023]:
        for cal in chosen:
            ys = [y for y in range(cal.min_year + 1, cal.max_year) if y % 1024 == r]
            for y in ys:
                Q.append(["ys", cal.id, y]); slot.append(("year", r, y))
                lo, hi = gen.cal_range(cal.id)
                try:
                    from pyoda_time import LocalDate
                    d = gen.day_of(LocalDate(y, 1, 1, cal)) + rng.randint(0, 300)
                    if lo <= d <= hi:
                        Q.append(["ymd", cal.id, d]); slot.append(("year", r, y))
                except Exception:  # noqa: BLE001
                    pass
    # zone instants whose 32-day periods collide mod 512
    ids = list(DateTimeZoneProviders.tzdb.ids)
    zones = ["Europe/London", "America/New_York", "America/Fortaleza", "Asia/Gaza"] + rng.sample(ids, 2)
    nper = (gen.INST_MAX_NS - gen.INST_MIN_NS) // (32 * DAY)
    base_p = gen.INST_MIN_NS // (32 * DAY)
    for zid in zones:
        for s in rng.sample(range(512), 2 * scale):
            ps = [p for p in range(base_p + 1, base_p + nper) if p % 512 == s]
            # concentrate on 1850-2100 where real transitions live, plus a few far ones
            near = [p for p in ps if -4 * 10**18 < p * 32 * DAY < 4.2 * 10**18]
            for p in near + rng.sample(ps, min(len(ps), 6)):
                for off in (0, 32 * DAY - 1, rng.randrange(32 * DAY)):
                    t = p * 32 * DAY + off
                    if gen.INST_MIN_NS <= t <= gen.INST_MAX_NS:
                        Q.append(["zi", zid, t]); slot.append(("zone", zid, s, p))
    # provider and calendar lookups (first lookups happen in whichever order the history dictates)
    try:
        from pyoda_time.time_zones._tzdb_date_time_zone_source import TzdbDateTimeZoneSource
        al = dict(TzdbDateTimeZoneSource.default.aliases)
        canon = rng.choice([k for k, v in al.items() if len(v) >= 2])
        for a in [canon] + list(al[canon])[:4]:
            Q.append(["prov", a]); slot.append(("prov", canon))
    except Exception:  # noqa: BLE001
        pass
    for zid in rng.sample(ids, 12):
        Q.append(["prov", zid]); slot.append(("prov", zid))
    for cid in CalendarSystem.ids:
        Q.append(["cal", cid]); slot.append(("cal", cid))
    for sgl in (["single", "tzdb"], ["single", "utc"]):
        Q.append(sgl); slot.append(("single", sgl[1]))
    # formatting through the least-recently-added caches
    from vf import textgen as G
    cults = [c.name for c in G.cultures(rng, 520 if with_cultures else 30)]
    pats = ["D", "d", "MMMM d", "dddd", "ddd MMM", "uuuu-MM-dd", "yyyy MM dd gg", "yyyy g"]
    for j, cn in enumerate(cults):
        Q.append(["fmt", "LocalDate", pats[j % len(pats)], cn, rng.randint(-20000, 30000)]); slot.append(("fmt", j % 16))
    if with_cultures:
        # > 500 distinct pattern texts through one culture's least-recently-added pattern cache, then revisit the first ones
        for j in range(520):
            Q.append(["fmt", "LocalTime", f"HH:mm'#{j}'", "", (j * 7919) % 86400 * NS]); slot.append(("pattern-cache", j % 16))
        for j in range(6):
            Q.append(["fmt", "LocalTime", f"HH:mm'#{j}'", "", 3600 * NS + j]); slot.append(("pattern-cache-revisit", j))
    for cn in cults[:6]:
        Q.append(["fmt", "LocalDate", "dddd, MMMM d", cn, 19000]); slot.append(("fmt-revisit", cn))
        Q.append(["fmt", "LocalTime", "T", cn, 13 * 3600 * NS + 5 * NS]); slot.append(("fmt-revisit", cn))
    return Q, slot


def orders_for(rng, Q, slot, K):
    n = len(Q)
    idx = list(range(n))
    asc = sorted(idx, key=lambda i: (slot[i][0], str(slot[i][1:])))
    desc = list(reversed(asc))
    def ckey(i):
        s = slot[i]
        if s[0] == "year": return (0, s[1], -s[2])
        if s[0] == "zone": return (1, s[1], s[2], -s[3])
        return (2, str(s))
    coll = sorted(idx, key=ckey)
    coll2 = sorted(idx, key=lambda i: (ckey(i)[0], ckey(i)[1], [-(x) if isinstance(x, int) else x for x in ckey(i)[2:]].__repr__()))
    out = [asc, desc, coll, coll2]
    while len(out) < K:
        o = idx[:]; rng.shuffle(o); out.append(o)
    return out[:K]


class Refs:
    """Cache-free references for year starts and zone intervals."""

    def __init__(self):
        from vf.models import calendars_ref, nzd_ref
        from vf.props.c06 import file_bytes
        self.R = calendars_ref
        self.nzd = nzd_ref.load(file_bytes("bundled"))
        self.exp = {}

    def year_start(self, cid, y):
        ref = self.R.reference_for(cid)
        if ref is None or y < self.R.MIN_YEAR_OVERRIDE.get(cid, -10**9):
            return None
        return ref.year_start(y)

    def zone_interval(self, zid, t):
        import bisect

        from vf.models import tzrules_ref as T
        canon = self.nzd["idmap"].get(zid, zid)
        z = self.nzd["zones"].get(canon)
        if z is None:
            return None
        if canon not in self.exp:
            e = T.expected_intervals(z, None, zid)
            self.exp[canon] = (e, [(-10**40 if x[0] is None else x[0]) for x in e])
        e, starts = self.exp[canon]
        r = e[bisect.bisect_right(starts, t) - 1]
        return [r[0], r[1], r[2] // 1000, r[3] // 1000, r[4]]


def absorb_shadow(ctx, res, where):
    sh = res.get("shadow", {})
    ctx.counters["shadow_evaluations"] += sh.get("evals", 0)
    for m in sh.get("mismatches", []):
        ctx.V(f"C13:cache-shadow:{m[0]}", f"{where}: a cache served a value that differs from an uncached recomputation: {m}", {"kind": "shadow", "detail": m})
    for u in sh.get("unavailable", []):
        ctx.note(f"shadow monitor unavailable: {u}")


def run_history(ctx, K, scale, with_cultures):
    rng = ctx.rng
    Q, slot = gen_queries(rng, scale, with_cultures)
    orders = orders_for(rng, Q, slot, K)
    names = ["ascending", "descending", "collision-interleaved", "collision-interleaved-2"] + [f"random-{i}" for i in range(K)]
    answers = []
    for k, order in enumerate(orders):
        res, err = run_child({"mode": "seq", "queries": Q, "orders": [order], "seed": ctx.seed})
        ctx.counters["history_processes"] += 1
        if res is None:
            ctx.inconc(f"history child failed: {err}"); return
        absorb_shadow(ctx, res, f"history order {names[k]}")
        a = {}
        for i, ans, ident, exc in res["threads"][0]:
            a[i] = ("raised", exc) if exc else ("ok", ans)
        answers.append(a)
    refs = Refs()
    for i, q in enumerate(Q):
        ctx.ev(); ctx.counters["history_answers_compared"] += 1
        ctx.key(("slot",) + tuple(slot[i][:3]))
        vals = [a.get(i) for a in answers]
        if any(v != vals[0] for v in vals[1:]):
            j = next(j for j, v in enumerate(vals) if v != vals[0])
            ctx.V(f"C13:history-dependent:{q[0]}", f"query {q} answers {vals[0]} in order '{names[0]}' but {vals[j]} in order '{names[j]}' (fresh processes, same query multiset)",
                  {"kind": "history", "query": q, "orders": [names[0], names[j]]}, vals[j], vals[0])
            continue
        if vals[0] is None or vals[0][0] != "ok":
            if vals[0] is not None and q[0] != "fmt":
                ctx.V(f"C13:query-raised:{q[0]}", f"query {q} raised in every order: {vals[0]}", {"kind": "history", "query": q})
            continue
        ans = vals[0][1]
        if q[0] == "ys":
            e = refs.year_start(q[1], q[2])
            if e is not None:
                ctx.counters["reference_comparisons"] += 1
                if ans[0] != e:
                    ctx.V("C13:year-start-differs-from-reference", f"{q}: year start {ans[0]} in every order, cache-free reference {e}", {"kind": "history", "query": q}, ans[0], e)
        elif q[0] == "zi":
            e = refs.zone_interval(q[1], q[2])
            if e is not None:
                ctx.counters["reference_comparisons"] += 1
                if ans != e:
                    ctx.V("C13:zone-interval-differs-from-reference", f"{q}: interval {ans}; independent reading of the database gives {e}", {"kind": "history", "query": q}, ans, e)
        elif q[0] == "fmt" and ans[1] is False and q[2] in ("uuuu-MM-dd", "D"):
            ctx.count("note:format-not-roundtripping")
    ctx.sample({"kind": "history", "queries": len(Q), "orders": names[:K], "example": Q[0]})


def run_conc(ctx, trials, inject):
    rng = ctx.rng
    sigs = set()
    for tr in range(trials):
        # small, collision-heavy query set; fresh process; first lookups race
        Q, slot = gen_queries(rng, 1, False)
        keep = [i for i in range(len(Q)) if Q[i][0] in ("prov", "cal", "single") or rng.random() < (0.05 if inject else 0.25)]
        # first-use races of the lazily filled name tables: several patterns that need month AND day names in the same fresh culture
        from vf import textgen as G
        cn = rng.choice(G.cultures(rng, 12)[1:]).name
        extra = [["fmt", "LocalDate", p, cn, 19000 + j] for j, p in enumerate(["dddd", "ddd", "MMMM", "MMM", "dddd MMMM", "ddd MMM d"])]
        Q2 = [Q[i] for i in keep] + extra
        T = rng.choice([2, 4, 8, 8, 16])
        lazy_init_trial = tr % 3 == 1
        if lazy_init_trial:
            # first-use race only: every thread's FIRST action needs the lazily built month/day name tables of the same fresh cultures
            cns = [c.name for c in G.cultures(rng, 12)[1:4]]
            Q2 = []
            for c_ in cns:
                Q2 += [["fmt", "LocalDate", p, c_, 19000 + j] for j, p in enumerate(["dddd d MMMM uuuu", "ddd, MMM d uuuu", "MMMM", "ddd", "dddd", "MMM d"])]
            T = 8
        orders = []
        for t in range(T):
            o = list(range(len(Q2)))
            if t % 2: o.reverse()
            if t >= 2: rng.shuffle(o)
            # put the racing first-lookups and lazy-init queries at the very start of every thread
            first = [i for i in o if Q2[i][0] in ("prov", "cal", "single") or (Q2[i][0] == "fmt" and Q2[i][3] == cn and len(Q2[i][2]) <= 9)]
            rng.shuffle(first)
            if lazy_init_trial:
                o = list(range(len(Q2)))
                # thread t starts with pattern (t mod 2) of each culture: long names vs short names
                first = [6 * c_ + (t % 2) for c_ in range(len(Q2) // 6)]
            orders.append(first + [i for i in o if i not in set(first)])
        seed = rng.randrange(10**9)
        ref, err = run_child({"mode": "seq", "queries": Q2, "orders": [list(range(len(Q2)))], "seed": seed})
        res, err2 = run_child({"mode": "conc", "queries": Q2, "orders": orders, "inject": inject, "seed": seed, "p": rng.choice([0.2, 0.4, 0.6]), "modules": MODULES, "watchdog_s": 900})
        ctx.counters["concurrent_trials"] += 1
        if ref is None or res is None:
            ctx.inconc(f"concurrent trial child failed: {err or err2}"); continue
        absorb_shadow(ctx, res, f"concurrent trial seed {seed} ({T} threads)")
        if res.get("hung"):
            # decided structurally, never on the clock: a deadlock is a set of unfinished threads that all sit on a lock acquisition inside the library
            import re as _re
            fr = res.get("hung_frames") or []
            if fr and all(f and _re.search(r"with .*lock|\.acquire\(", f[3], _re.I) for f in fr):
                ctx.V("C13:concurrent-deadlock", f"threads {res['hung']} of a {T}-thread trial (seed {seed}) are all blocked on lock acquisitions: {fr}", {"kind": "conc", "seed": seed, "threads": T, "inject": inject})
            else:
                ctx.inconc(f"{T}-thread trial (seed {seed}) still running at the wall watchdog, threads not blocked on locks ({fr[:2]}): not judged")
            continue
        refans = {i: (("raised", exc) if exc else ("ok", ans)) for i, ans, ident, exc in ref["threads"][0]}
        idents = {}
        for t, out in enumerate(res["threads"]):
            for i, ans, ident, exc in out:
                ctx.ev(); ctx.counters["concurrent_answers_compared"] += 1
                got = ("raised", exc) if exc else ("ok", ans)
                if got != refans.get(i):
                    kind = "raised" if exc else "differs"
                    ctx.V(f"C13:concurrent-{kind}:{Q2[i][0]}", f"{T}-thread trial (seed {seed}, inject={inject}): thread {t} got {got} for {Q2[i]}; single-threaded fresh process gives {refans.get(i)}",
                          {"kind": "conc", "seed": seed, "threads": T, "inject": inject, "query": Q2[i]}, got, refans.get(i))
                if ident is not None:
                    idents.setdefault(i, set()).add(ident)
        for i, s in idents.items():
            ctx.counters["identity_checks"] += 1
            if len(s) > 1:
                ctx.V(f"C13:identity:{Q2[i][0]}", f"{T}-thread trial (seed {seed}, inject={inject}): {len(s)} distinct objects were handed out for {Q2[i]} (must be one per id)",
                      {"kind": "conc", "seed": seed, "threads": T, "inject": inject, "query": Q2[i]}, len(s), 1)
        if "inj" in res:
            st = res["inj"]
            ctx.counters["yield_injections"] += st["injections"]; ctx.counters["yield_callbacks"] += st["callbacks"]
            ctx.counters["code_objects_instrumented"] = max(ctx.counters.get("code_objects_instrumented", 0), st["code_objects"])
            ctx.counters["code_objects_fired_max"] = max(ctx.counters.get("code_objects_fired_max", 0), st["fired"])
            sigs.add(st["signature"]); ctx.key(("interleaving", st["signature"]))
        else:
            ctx.key(("plain-trial", seed))
        if tr == 0:
            ctx.sample({"kind": "conc", "threads": T, "queries": len(Q2), "inject": inject, "inj": res.get("inj")})
    ctx.counters["distinct_interleavings"] += len(sigs)
    # thread-local culture: a thread that sets CultureInfo.current_culture does not change another thread's formatting
    Qc = [["curculture", "fr-FR", 1], ["curculture", "de-DE", 1], ["curculture", "", 1], ["curculture", "es-ES", 1]]
    ref, _ = run_child({"mode": "seq", "queries": Qc, "orders": [[0]], "seed": 1})
    exp = {}
    for k in range(len(Qc)):
        r1, _ = run_child({"mode": "seq", "queries": Qc, "orders": [[k]], "seed": 1})
        if r1: exp[k] = r1["threads"][0][0][1]
    res, _ = run_child({"mode": "conc", "queries": Qc, "orders": [[k] * 30 for k in range(len(Qc))], "inject": False, "seed": 1, "modules": MODULES})
    if res:
        for t, out in enumerate(res["threads"]):
            for i, ans, ident, exc in out:
                ctx.ev(); ctx.counters["identity_checks"] += 1
                if exc or ans != exp.get(i):
                    ctx.V("C13:thread-local-culture", f"thread {t} formatting with its own current culture {Qc[i][1]!r} got {ans if not exc else exc}; alone it gets {exp.get(i)}", {"kind": "culture", "query": Qc[i]}); break


def run_periods(ctx, i, k, probes):
    """Caching zone == wrapped zone, period by period: a cache node covers one aligned 32-day period and must hold every interval that overlaps it."""
    from pyoda_time import DateTimeZoneProviders
    from vf import gen, zonewalk
    rng = ctx.rng
    tz = DateTimeZoneProviders.tzdb
    ids = sorted(tz.ids)[i::k]
    P = 32 * DAY
    p_lo = (-170 * 366 * DAY) // P; p_hi = (131 * 366 * DAY) // P
    for zid in ids:
        cached = tz[zid]
        plain = getattr(cached, "_time_zone", None) or getattr(cached, "_CachedDateTimeZone__time_zone", None)
        if plain is None:
            ctx.count("zones_without_caching_wrapper"); continue      # fixed zones are served unwrapped
        multi = 0
        # the wrapped zone's own interval list 1800-2100 is the expectation; the caching wrapper is probed at every transition, one ns before it,
        # and at both ends of every period that contains a transition (plus a seeded sample of quiet periods), in seeded order
        log, _ = zonewalk.walk(plain, p_lo * P, p_hi * P)
        starts = [(-10**30 if r[0] is None else r[0]) for r in log]
        trans = [r[0] for r in log[1:] if r[0] is not None]
        periods = {}
        for t in trans:
            periods.setdefault(t // P, []).append(t)
        pts = []
        for p, ts in periods.items():
            pts += [p * P, p * P + P - 1, p * P + rng.randrange(P)]
            pts += [(p + dp) * P + rng.randrange(P) for dp in (-2, -1, 1, 2, 3)]     # neighbours, so that a period is also reached AFTER a later one was answered
            for t in ts: pts += [t, t - 1, t + 1]
            if len(ts) >= 2:
                multi += 1; ctx.key(("multi-transition-period", zid, p))
        pts += [p * P + rng.choice([0, P - 1, rng.randrange(P)]) for p in rng.sample(range(p_lo, p_hi), probes * 20)]
        rng.shuffle(pts)
        # the first and last cache periods of the whole range (they stick out beyond the supported instants)
        for t in (gen.INST_MIN_NS, gen.INST_MIN_NS + 1, gen.INST_MIN_NS + 5 * DAY, gen.INST_MIN_NS + 40 * DAY, gen.INST_MAX_NS, gen.INST_MAX_NS - 1, gen.INST_MAX_NS - 5 * DAY, gen.INST_MAX_NS - 40 * DAY):
            ctx.ev(); ctx.counters["period_probes"] += 1
            inst = gen.ns_inst(t)
            try:
                ra = zonewalk.rec_of(cached.get_zone_interval(inst)); rb = zonewalk.rec_of(plain.get_zone_interval(inst))
                if ra != rb:
                    ctx.V("C13:caching-zone-differs-from-wrapped-zone", f"{zid} at {t} (end of the supported range): caching zone returns {ra}, the zone it wraps returns {rb}", {"kind": "periods", "zone": zid, "t": t}, ra, rb)
            except Exception as e:  # noqa: BLE001
                ctx.exc(e)
                try:
                    plain.get_zone_interval(inst)
                    ctx.V(f"C13:caching-zone-raises:{type(e).__name__}", f"{zid} at {t} (end of the supported range): the caching zone raised {e!r}; the zone it wraps answers", {"kind": "periods", "zone": zid, "t": t}, repr(e))
                except Exception:  # noqa: BLE001
                    pass
        import bisect
        for t in pts:
            if not (p_lo * P <= t < p_hi * P - 1): continue
            inst = gen.ns_inst(t)
            a_ = cached.get_zone_interval(inst)
            ctx.ev(); ctx.counters["period_probes"] += 1
            ra = zonewalk.rec_of(a_); rb = log[bisect.bisect_right(starts, t) - 1]
            same = tuple(ra) == tuple(rb)
            if not same or not ((ra[0] is None or ra[0] <= t) and (ra[1] is None or t < ra[1])):
                ctx.V("C13:caching-zone-differs-from-wrapped-zone", f"{zid} at {t} (32-day period {t // P}, offset {t % P} ns): caching zone returns {ra}, the zone it wraps has {tuple(rb[:6])} there",
                      {"kind": "periods", "zone": zid, "t": t}, ra, list(rb[:6]))
        ctx.counters["multi_transition_periods"] += multi
        # few slots, many threads: instants whose 32-day periods share one cache slot (512 periods apart), asked by 8 threads at once
        if ids.index(zid) < 3 and len(log) > 3:
            import sys
            import threading
            t1 = log[len(log) // 2][0] + 5 * DAY
            keys_ = [t for t in (t1 + k_ * 512 * P + off_ for k_ in (-2, -1, 0, 1, 2) for off_ in (0, 3 * DAY)) if p_lo * P <= t < p_hi * P - 1]
            bad_ = []; done_ = [0]

            def hammer(seed_):
                import random
                r_ = random.Random(seed_)
                for _ in range(1500):
                    t = r_.choice(keys_)
                    ra = zonewalk.rec_of(cached.get_zone_interval(gen.ns_inst(t)))
                    done_[0] += 1
                    if tuple(ra) != tuple(log[bisect.bisect_right(starts, t) - 1]):
                        bad_.append((t, ra)); return
            old_si = sys.getswitchinterval()
            try:
                sys.setswitchinterval(1e-6)
                ths = [threading.Thread(target=hammer, args=(rng.randrange(10**9),)) for _ in range(8)]
                [t_.start() for t_ in ths]; [t_.join(600) for t_ in ths]
            finally:
                sys.setswitchinterval(old_si)
            ctx.counters["slot_hammer_lookups"] += done_[0]; ctx.ev()
            if bad_:
                t, ra = bad_[0]
                ctx.V("C13:caching-zone-differs-under-threads", f"{zid}: with 8 threads asking for instants whose cache periods share one slot, the caching zone returned {ra} for {t}; the zone it wraps has {tuple(log[bisect.bisect_right(starts, t) - 1])}",
                      {"kind": "periods", "zone": zid, "t": t}, list(ra))
    ctx.sample({"kind": "periods", "zones": len(ids), "periods_per_zone": p_hi - p_lo, "probes_per_period": probes})


def run_culture_state(ctx, rounds):
    """The ambient culture is the one piece of state the text layer reads implicitly.  (a) It is per thread: a thread that never set it sees the
    process default, whatever threads that have since exited had set (thread idents are recycled).  (b) Formatting through the current culture is a
    function of the culture AS IT IS NOW: after a writable culture is customised, format() answers like a pattern created afresh for it."""
    import threading
    from pyoda_time import AnnualDate, Instant, LocalDate, LocalDateTime, LocalTime, Offset
    from pyoda_time._compatibility._culture_info import CultureInfo
    from pyoda_time._compatibility._culture_types import CultureTypes
    from pyoda_time import text as T
    rng = ctx.rng
    names = [c.name for c in CultureInfo.get_cultures(CultureTypes.ALL_CULTURES) if c.name]
    box = {}

    def read_default(tag):
        c = CultureInfo.current_culture
        box[tag] = (c.name, T.LocalDatePattern.create_with_current_culture("D").format(LocalDate(2024, 3, 5)), format(LocalDateTime(2024, 3, 5, 9, 30, 15), "F"))
    t = threading.Thread(target=read_default, args=("baseline",)); t.start(); t.join()
    for r in range(rounds):
        nm = rng.choice(names)

        def setter():
            CultureInfo.current_culture = CultureInfo(nm)
            box["set"] = CultureInfo.current_culture.name
        a = threading.Thread(target=setter); a.start(); a.join()
        b = threading.Thread(target=read_default, args=("after",)); b.start(); b.join()
        ctx.ev(); ctx.counters["thread_culture_rounds"] += 1; ctx.key(("thread-culture", a.ident == b.ident))
        if box.get("after") != box["baseline"]:
            ctx.V("C13:thread-culture-leaks", f"a new thread that never set a culture sees {box.get('after')} after an earlier (finished) thread had set {nm!r}; a thread that starts before any setting sees {box['baseline']} "
                  f"(thread ident reused: {a.ident == b.ident})", {"kind": "culture", "culture": nm}, box.get("after"), box["baseline"])
            break
    saved = CultureInfo.current_culture
    vals = {"LocalDate": (LocalDate(2024, 3, 5), T.LocalDatePattern, ["D", "d", "MMMM dd"]), "LocalTime": (LocalTime(9, 30, 15), T.LocalTimePattern, ["t", "T", "hh:mm tt"]),
            "LocalDateTime": (LocalDateTime(2024, 3, 5, 9, 30, 15), T.LocalDateTimePattern, ["F", "f", "G", "g"]), "AnnualDate": (AnnualDate(3, 5), T.AnnualDatePattern, ["MMMM dd", "G"]),
            "Instant": (Instant.from_utc(2024, 3, 5, 9, 30, 15), T.InstantPattern, ["g", "MMMM dd HH:mm"]), "Offset": (Offset.from_hours_and_minutes(5, 30), T.OffsetPattern, ["g", "G", "l"])}
    try:
        for r in range(max(6, rounds // 4)):
            nm = rng.choice(names + ["en-US", "fr-FR"])
            for tname, (v, P, specs) in vals.items():
                for spec in specs:
                    try:
                        culture = CultureInfo(nm).clone()
                    except Exception as e:  # noqa: BLE001
                        ctx.exc(e); continue
                    if getattr(culture, "is_read_only", False): continue
                    CultureInfo.current_culture = culture
                    steps = [lambda: None,
                             lambda: setattr(culture.date_time_format, "long_date_pattern", "yyyy MMMM dd"),
                             lambda: setattr(culture.date_time_format, "am_designator", "ante"),
                             lambda: (lambda m: (m.__setitem__(2, "Ventose"), setattr(culture.date_time_format, "month_names", m), setattr(culture.date_time_format, "month_genitive_names", m)))(list(culture.date_time_format.month_names)),
                             lambda: setattr(culture.date_time_format, "short_time_pattern", "HH'h'mm")]
                    rng.shuffle(steps)
                    for si, step in enumerate(steps):       # the same question again and again while its culture is being customised
                        try:
                            step()
                        except Exception as e:  # noqa: BLE001  (this culture does not allow that customisation)
                            ctx.exc(e); continue
                        ctx.ev(); ctx.counters["mutable_culture_formats"] += 1; ctx.key(("mutable-culture", tname, spec, si))
                        try:
                            got = format(v, spec); want = P.create(spec, culture).format(v)
                        except Exception as e:  # noqa: BLE001
                            ctx.exc(e); continue
                        if got != want:
                            ctx.V(f"C13:format-ignores-culture-change:{tname}", f"format({tname}, {spec!r}) under the writable current culture {nm!r} gives {got!r} after customisation step {si}; a pattern created afresh for the culture as it is now gives {want!r}",
                                  {"kind": "culture", "culture": nm, "spec": spec}, got, want)
        # the same through the pattern API: a writable culture that was already used, then customised, answers like an identically customised
        # culture that was never used before
        def customise(c, k):
            f = c.date_time_format
            if k == 0: d = list(f.day_names); d[1] = "Lundi"; f.day_names = d
            elif k == 1:
                m = f.month_names          # the usual way: take the list, edit it, set it back
                if isinstance(m, list): m[2] = "Ventose"
                else: m = list(m); m[2] = "Ventose"
                f.month_names = m; f.month_genitive_names = list(m)
            elif k == 2: f.am_designator = "ante"; f.pm_designator = "post"
            elif k == 3:
                d = list(f.abbreviated_day_names); d[1] = "Lu"; f.abbreviated_day_names = d
                am_ = f.abbreviated_month_names
                if isinstance(am_, list): am_[2] = "Vnt"
                else: am_ = list(am_); am_[2] = "Vnt"
                f.abbreviated_month_names = am_
            elif k == 4: f.long_date_pattern = "yyyy MMMM dd"
            else: f.long_time_pattern = "HH:mm:ss.fff"; f.short_time_pattern = "HH'h'mm"
        probes = [(T.LocalDatePattern, "dddd d MMMM", LocalDate(2024, 3, 4)), (T.LocalDatePattern, "ddd MMM", LocalDate(2024, 3, 4)), (T.LocalTimePattern, "hh:mm tt", LocalTime(9, 30, 15)),
                  (T.LocalDateTimePattern, "dddd MMMM d hh tt", LocalDateTime(2024, 3, 4, 21, 30, 15)), (T.LocalDatePattern, "D", LocalDate(2024, 3, 4)),
                  (T.LocalDatePattern, "MMMM yyyy", LocalDate(2024, 3, 4)), (T.LocalDatePattern, "MMM yyyy", LocalDate(2024, 3, 4)),
                  (T.LocalDateTimePattern, "F", LocalDateTime(2024, 3, 4, 13, 45, 56).plus_milliseconds(789)), (T.LocalDateTimePattern, "f", LocalDateTime(2024, 3, 4, 13, 45, 56)),
                  (T.LocalDateTimePattern, "G", LocalDateTime(2024, 3, 4, 13, 45, 56).plus_milliseconds(789)), (T.LocalTimePattern, "T", LocalTime(13, 45, 56).plus_milliseconds(789))]
        for r in range(max(6, rounds // 4)):
            nm = rng.choice(names + ["en-US", "fr-FR"])
            try:
                used = CultureInfo(nm).clone() if r % 2 else CultureInfo(nm); fresh = CultureInfo(nm).clone() if r % 2 else CultureInfo(nm)
            except Exception as e:  # noqa: BLE001
                ctx.exc(e); continue
            if getattr(used, "is_read_only", False): continue
            def untouched_texts():
                out_ = []
                for P_, spec, v in probes:
                    try: out_.append(P_.create(spec, CultureInfo(nm)).format(v))
                    except Exception as e: out_.append(repr(e)[:60])  # noqa: BLE001,E701
                return out_
            base_texts = untouched_texts()
            order = rng.sample(range(6), 6)
            for k in order:
                for P_, spec, v in probes:            # use it first (whatever is cached is cached now) ...
                    try: P_.create(spec, used).format(v)
                    except Exception as e: ctx.exc(e)  # noqa: BLE001,E701
                try:
                    customise(used, k); customise(fresh, k)
                except Exception as e:  # noqa: BLE001
                    ctx.exc(e); continue
                for P_, spec, v in probes:            # ... then ask again after the change
                    ctx.ev(); ctx.counters["mutable_culture_formats"] += 1; ctx.key(("mutable-culture-pattern", P_.__name__, spec, k))
                    try:
                        got = P_.create(spec, used).format(v); want = P_.create(spec, fresh).format(v)
                    except Exception as e:  # noqa: BLE001
                        ctx.exc(e); continue
                    if got != want:
                        ctx.V(f"C13:pattern-ignores-culture-change:{P_.__name__}", f"{P_.__name__}.create({spec!r}, <writable {nm!r} culture, used before and then customised (step {k})>) writes {got!r}; an identically customised culture that "
                              f"was never used writes {want!r}", {"kind": "culture", "culture": nm, "spec": spec}, got, want)
                fresh = fresh.clone() if hasattr(fresh, "clone") else fresh      # keep `fresh` unused: work on a new copy next time
            # a culture object created now, and never customised, is unaffected by what was done to the other objects
            now_texts = untouched_texts()
            ctx.ev(); ctx.counters["mutable_culture_formats"] += 1
            if now_texts != base_texts:
                j_ = next(i for i in range(len(probes)) if now_texts[i] != base_texts[i])
                ctx.V("C13:customisation-leaks-to-other-culture-objects", f"after customising one writable {nm!r} culture object, a brand-new CultureInfo({nm!r}) formats {probes[j_][1]!r} as {now_texts[j_]!r}; before the customisation it gave {base_texts[j_]!r}",
                      {"kind": "culture", "culture": nm}, now_texts[j_], base_texts[j_])
    finally:
        CultureInfo.current_culture = saved
    ctx.sample({"kind": "culture-state", "rounds": rounds})


def run_provider_state(ctx, rounds):
    """A caching provider over a user-written source (which may, as the source contract allows, answer an alias with a zone carrying the canonical
    id, and build a new object per call): repeated lookups give one object and ask the source once; what any id answers does not depend on which
    other ids were asked before, in any order."""
    from pyoda_time import DateTimeZone, Instant, Offset
    from pyoda_time.testing.time_zones import SingleTransitionDateTimeZone
    from pyoda_time.time_zones import DateTimeZoneCache, IDateTimeZoneSource
    rng = ctx.rng

    class Src(IDateTimeZoneSource):
        def __init__(self, ids, aliases): self._ids = list(ids); self._al = dict(aliases); self.requests = []
        @property
        def version_id(self): return "vf-source 1"
        def get_ids(self): return list(self._ids)
        def for_id(self, id_):
            self.requests.append(id_)
            return SingleTransitionDateTimeZone(Instant.from_utc(2000, 1, 1, 0, 0), Offset.from_hours(1), Offset.from_hours(2), self._al.get(id_, id_))
        def get_system_default_id(self): return None

    def outcome(p, i):
        try:
            z = p.get_zone_or_none(i)
            return None if z is None else ("zone", z.id)
        except Exception as e:  # noqa: BLE001
            return ("raised", type(e).__name__)
    for r in range(rounds):
        k = rng.randint(2, 5)
        canon = [f"New/C{j}" for j in range(k)]; alias = {f"Old/A{j}": rng.choice(canon) for j in range(rng.randint(1, 4))}
        advertised = list(alias) + [c for c in canon if rng.random() < 0.6] + ["Other/Zone"]
        asks = [rng.choice(list(alias) + canon + ["Other/Zone", "Not/There"]) for _ in range(rng.randint(4, 12))]
        # reference: every id asked of a FRESH provider (no history)
        ref = {i: outcome(DateTimeZoneCache(Src(advertised, alias)), i) for i in set(asks)}
        src = Src(advertised, alias); prov = DateTimeZoneCache(src); seen = {}
        for n_, i in enumerate(asks):
            ctx.ev(); ctx.counters["provider_state_lookups"] += 1; ctx.key(("provider-state", i in alias, i in advertised, i in seen))
            got = outcome(prov, i)
            case = {"kind": "provider", "asks": asks[:n_ + 1], "advertised": advertised, "aliases": alias}
            if got != ref[i]:
                ctx.V("C13:provider-answer-depends-on-history", f"a caching provider over a user-written source answers {got} for {i!r} after the lookups {asks[:n_]}; a fresh provider answers {ref[i]}", case, got, ref[i])
                break
            if got is not None and got[0] == "zone":
                z = prov[i]
                if i in seen and seen[i] is not z:
                    ctx.V("C13:provider-lookup-not-cached", f"repeated lookups of {i!r} returned different zone objects (lookups so far: {asks[:n_ + 1]})", case)
                    break
                seen[i] = z
        dup = [i for i in set(src.requests) if src.requests.count(i) > 1]
        if dup:
            ctx.V("C13:provider-asks-source-again", f"the source was asked {src.requests.count(dup[0])} times for {dup[0]!r} by one caching provider (lookups: {asks})", {"kind": "provider", "asks": asks, "aliases": alias})
    ctx.sample({"kind": "provider-state", "rounds": rounds})


def run(ctx, shard):
    for k in REQUIRED["any"] + ["yield_callbacks", "distinct_interleavings"]:
        ctx.counters.setdefault(k, 0)
    if shard["part"] == "culture":
        run_culture_state(ctx, shard["rounds"]); run_provider_state(ctx, shard["rounds"] * 3); return
    if shard["part"] == "periods":
        run_periods(ctx, shard["i"], shard["k"], shard["probes"]); return
    if shard["part"] == "history":
        run_history(ctx, shard["K"], shard["scale"], shard["cultures"])
    else:
        run_conc(ctx, shard["trials"], shard["inject"])


def replay(ctx, case):
    ctx.distinct(2)
    for k in REQUIRED["any"] + ["yield_callbacks", "distinct_interleavings"]:
        ctx.counters.setdefault(k, 0)
    if "part" in ctx.shard and case.get("kind") not in ("conc", "culture"):
        run(ctx, ctx.shard); return
    if case.get("kind") in ("conc", "culture"):
        # schedule-dependent: re-execute trials with the shard's seeded generator and report how often it recurs
        run_conc(ctx, 20, case.get("inject", True))
    else:
        run_history(ctx, 4, 1, False)
