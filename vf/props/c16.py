"""C16 — week-year rules and weekday navigation (DESIGN §3 C16)."""
from __future__ import annotations

import calendar as pycal
import datetime as dt

LEVEL = "exploration"
RULE = ("71 rules (ISO, 7x7 min-days x first-day, 3x7 BCL-style) x every calendar x 19-day windows around seeded year boundaries and range ends; "
        "regular rules compared with an independent week-1 model, all rules for round trip / week range / advance; ISO rule vs date.isocalendar "
        "(all ordinals in thorough); weekday navigation vs modular day arithmetic; n-th weekday of month vs enumeration with datetime.date; "
        "distinct key = (rule, calendar, side of year boundary, week-year offset) etc.")
ASSUMPTIONS = ["datetime.date.isocalendar / isoweekday as ISO-8601 oracle", "harness model of regular rules: week 1 is the first week (starting on the rule's first day) with >= min-days days in the calendar year",
               "day numbers: ISO weekday = (d+3) mod 7 + 1"]
MIN_NT = {"quick": 1500, "thorough": 4000}
REQUIRED = {"any": ["rule_evals", "iso_vs_stdlib", "navigation", "nth_weekday"]}
EXHAUSTIVE = {"thorough": False}
MAXORD = 3652059
UNIX = 719163


def shards(tier, seed):
    from pyoda_time import CalendarSystem
    out = [{"name": f"rules:{cid}", "part": "rules", "cal": cid, "years": 4 if tier == "quick" else 40} for cid in CalendarSystem.ids]
    out += [{"name": f"rules-mixed:{i}", "part": "mixed", "years": 12 if tier == "quick" else 150} for i in range(2 if tier == "quick" else 6)]
    if tier == "thorough":
        n = 16; step = (MAXORD + n - 1) // n
        out += [{"name": f"iso:{i}", "part": "iso", "lo": 1 + i * step, "hi": min(MAXORD, (i + 1) * step)} for i in range(n)]
        out += [{"name": f"nth:{i}", "part": "nth", "years": 300} for i in range(4)]
    else:
        out += [{"name": "iso:sample", "part": "iso_sample"}, {"name": "nth:0", "part": "nth", "years": 40}]
    return out


def dow_of(d):
    return (d + 3) % 7 + 1


def rule_makers():
    from pyoda_time import IsoDayOfWeek
    from pyoda_time.calendars import CalendarWeekRule, WeekYearRules
    makers = [("iso", lambda: WeekYearRules.iso, False, 4, 1)]
    for m in range(1, 8):
        for f in range(1, 8):
            makers.append((f"min{m}-first{f}", (lambda m=m, f=f: WeekYearRules.for_min_days_in_first_week(m, IsoDayOfWeek(f))), False, m, f))
    for r in CalendarWeekRule:
        for f in range(1, 8):
            makers.append((f"bcl-{r.name}-first{f}", (lambda r=r, f=f: WeekYearRules.from_calendar_week_rule(r, IsoDayOfWeek(f))), True, r.name, f))
    return makers


def all_rules(rng=None):
    """Every rule the factories hand out.  The factories are called in a seeded order (which rule is asked for first must not matter)."""
    from pyoda_time import IsoDayOfWeek
    from pyoda_time.calendars import CalendarWeekRule, WeekYearRules
    makers = rule_makers()
    order = list(range(len(makers)))
    if rng is not None:
        how = rng.randrange(3)
        if how == 0: rng.shuffle(order)
        elif how == 1: order.reverse()          # the BCL-style rules first
    built = {}
    for i in order:
        built[i] = makers[i][1]()
    return [(makers[i][0], built[i], makers[i][2], makers[i][3], makers[i][4]) for i in range(len(makers))]


def model_bcl(ys, d, y, kind, f, depth=0):
    """(week_year, week) by the published .NET Calendar.GetWeekOfYear algorithm (FirstDay / FirstFullWeek / FirstFourDayWeek), or None at the range edge."""
    s = ys.start(y)
    if s is None or depth > 2: return None
    doy0 = d - s
    jan1 = (dow_of(d) - doy0) % 7
    if kind == "FIRST_DAY":
        return (y, (doy0 + (jan1 - f) % 7) // 7 + 1)
    full = 7 if kind == "FIRST_FULL_WEEK" else 4
    offset = (f - jan1) % 7
    if offset != 0 and offset >= full: offset -= 7
    day = doy0 - offset
    if day >= 0: return (y, day // 7 + 1)
    return model_bcl(ys, s - 1, y - 1, kind, f, depth + 1)


class YearStarts:
    """Calendar-year starts as day numbers from public API; one year beyond each end by year length / unknown."""
    def __init__(self, cal, cid):
        from vf import gen
        self.cal = cal; self.lo, self.hi = gen.cal_range(cid); self.c = {}
        self.gen = gen

    def start(self, y):
        from pyoda_time import LocalDate
        if y in self.c: return self.c[y]
        cal = self.cal
        if cal.min_year <= y <= cal.max_year:
            v = min(self.gen.day_of(LocalDate(y, m, 1, cal)) for m in range(1, cal.get_months_in_year(y) + 1))
        elif y == cal.max_year + 1:
            v = self.hi + 1
        else:
            v = None  # start of min_year-1 is not defined by public data
        self.c[y] = v
        return v


def week1_start(ys, y, m, f):
    """Model: start (day number) of week 1 of week-year y for a regular rule (min days m, first day f)."""
    s = ys.start(y)
    if s is None: return None
    offset = (dow_of(s) - f) % 7          # days of the week containing the year start that belong to the previous year
    return s - offset if 7 - offset >= m else s - offset + 7


def model_week(ys, d, cal_year, m, f):
    """(week_year, week, weeks_in_week_year) for day d by the regular-rule model, or None when it needs undefined data."""
    s_this = week1_start(ys, cal_year, m, f); s_next = week1_start(ys, cal_year + 1, m, f)
    if s_this is None: return None
    if s_next is not None and d >= s_next:
        wy, s = cal_year + 1, s_next
    elif d < s_this:
        wy = cal_year - 1; s = week1_start(ys, wy, m, f)
        if s is None: return (wy, None, None)
    else:
        wy, s = cal_year, s_this
    s_after = week1_start(ys, wy + 1, m, f)
    weeks = None if s_after is None else (s_after - s) // 7
    return (wy, (d - s) // 7 + 1, weeks)


def run_rules(ctx, cid, n_years):
    from pyoda_time import IsoDayOfWeek, LocalDate
    from vf import gen
    from vf.ctx import exc_key
    rng = ctx.rng
    cal = gen.cal_by_id(cid); lo, hi = gen.cal_range(cid)
    ys = YearStarts(cal, cid)
    years = [cal.min_year, cal.min_year + 1, cal.max_year - 1, cal.max_year] + [rng.randint(cal.min_year, cal.max_year) for _ in range(n_years)]
    rules = all_rules(rng)
    for y in years:
        s0 = ys.start(y)
        # also the far end of the last year
        centres = [s0] + ([hi - 8] if y == cal.max_year else [])
        sub = rules if (y in (cal.min_year, cal.max_year) or ctx.thorough) else [rules[0]] + rng.sample(rules[1:], 16)
        for name, rule, irregular, m, f in sub:
            for centre in centres:
                prev = None
                for d in range(centre - 9, centre + 10):
                    if not lo <= d <= hi:
                        prev = None; continue
                    x = gen.date_of(d, cal)
                    case = {"kind": "rule", "cal": cid, "rule": name, "d": d}
                    ctx.ev(); ctx.count("rule_evals")
                    mdl = None if irregular else model_week(ys, d, x.year, m, f)
                    bcl = model_bcl(ys, d, x.year, m, f) if irregular else None
                    wy = None
                    try:
                        wy = rule.get_week_year(x)
                    except Exception as e:  # noqa: BLE001
                        first_exc = e
                    if wy is not None:
                        # a week-year that was REPORTED must be usable: week number, weeks in that week-year and the way back
                        try:
                            w = rule.get_week_of_week_year(x); wk = rule.get_weeks_in_week_year(wy, cal)
                            back = rule.get_local_date(wy, w, x.day_of_week, cal)
                            first_exc = None
                        except Exception as e:  # noqa: BLE001
                            ctx.exc(e)
                            ctx.V(f"C16:reported-week-year-unusable:{exc_key(e)}", f"{cid} day {d} ({x!r}) rule {name}: get_week_year reported {wy}, but converting (week-year, week, day) back raised {e!r}", case, repr(e))
                            prev = None; continue
                    try:
                        if first_exc is not None:
                            raise first_exc
                    except Exception as e:  # noqa: BLE001
                        ctx.exc(e)
                        outside = mdl is not None and not (cal.min_year <= mdl[0] <= cal.max_year)
                        at_edge = d - lo < 7 or hi - d < 7
                        if irregular and at_edge:
                            ctx.count("edge_raise_irregular")
                        elif outside and at_edge:
                            ctx.count("edge_raise_model_outside")
                        else:
                            ctx.V(f"C16:rule-raised:{exc_key(e)}", f"{cid} day {d} ({x!r}) rule {name}: raised {e!r}; model says {mdl}", case, repr(e))
                        prev = None; continue
                    ctx.key((cid, name, sign(d - s0), wy - x.year))
                    if back != x:
                        ctx.V("C16:roundtrip", f"{cid} rule {name}: {x!r} -> (wy {wy}, week {w}, {x.day_of_week.name}) -> {back!r}", case, repr(back))
                    if not 1 <= w <= wk:
                        ctx.V("C16:week-range", f"{cid} rule {name}: {x!r} week {w} outside 1..{wk} of week-year {wy}", case, (w, wk))
                    if bcl is not None: ctx.count("bcl_model_comparisons")
                    if bcl is not None and (wy, w) != bcl:
                        ctx.V("C16:bcl-rule-model", f"{cid} rule {name}: {x!r} day {d}: (week-year, week) = ({wy},{w}); the .NET GetWeekOfYear algorithm gives {bcl}", case, (wy, w), bcl)
                    if mdl is not None:
                        if mdl[0] != wy or (mdl[1] is not None and mdl[1] != w) or (mdl[2] is not None and mdl[0] == wy and mdl[2] != wk):
                            ctx.V("C16:regular-rule-model", f"{cid} rule {name}: {x!r} day {d}: (week-year, week, weeks) = ({wy},{w},{wk}); week-1 model gives {mdl}", case, (wy, w, wk), mdl)
                    if prev is not None:
                        pwy, pw, px = prev
                        if x.day_of_week.value == f:
                            ok = (wy, w) == (pwy, pw + 1) or (wy, w) == (pwy + 1, 1)
                        elif irregular:
                            ok = (wy, w) == (pwy, pw) or ((wy, w) == (pwy + 1, 1) and x.year != px.year) or (x.year != px.year and wy == pwy and w == pw)
                        else:
                            ok = (wy, w) == (pwy, pw)
                        if not ok:
                            ctx.V("C16:week-advance", f"{cid} rule {name}: {px!r} is (wy {pwy}, week {pw}) but next day {x!r} ({x.day_of_week.name}) is (wy {wy}, week {w}); first day of week is {f}", case, (wy, w), (pwy, pw))
                    prev = (wy, w, x)
    # (week-year, week, day) triples given directly: a week beyond the number of weeks the rule reports for that week-year (or below 1) has no date
    # and must be refused; an accepted triple must report itself back
    for y in rng.sample(years, min(len(years), 6)) + [rng.randint(cal.min_year + 1, cal.max_year - 1) for _ in range(6)]:
        if not cal.min_year < y < cal.max_year: continue
        for name, rule, irregular, m, f in [rules[0]] + rng.sample(rules[1:], 5):
            try:
                wk = rule.get_weeks_in_week_year(y, cal)
            except Exception as e:  # noqa: BLE001
                ctx.exc(e); continue
            # the reported number of weeks is exact: some day of week `wk` exists (and, for the BCL-style rules, it is the .NET week number of the year's last day)
            ctx.ev(); ctx.count("weeks_in_year_exact")
            some = 0
            for dv in range(1, 8):
                try:
                    x_ = rule.get_local_date(y, wk, IsoDayOfWeek(dv), cal)
                    if (rule.get_week_year(x_), rule.get_week_of_week_year(x_)) == (y, wk): some += 1
                except Exception as e:  # noqa: BLE001
                    ctx.exc(e)
            if some == 0:
                ctx.V("C16:weeks-in-week-year-not-attained", f"{cid} rule {name}: get_weeks_in_week_year({y}) = {wk}, but no day of the week has a date in week {wk} of that week-year", {"kind": "triple", "cal": cid, "rule": name, "y": y, "w": wk, "dow": 0}, wk)
            if irregular:
                last = ys.start(y + 1)
                b_ = model_bcl(ys, last - 1, y, m, f) if last is not None else None
                if b_ is not None and b_ != (y, wk):
                    ctx.V("C16:bcl-weeks-in-year", f"{cid} rule {name}: get_weeks_in_week_year({y}) = {wk}; by the .NET algorithm the last day of {y} is in (week-year, week) {b_}", {"kind": "triple", "cal": cid, "rule": name, "y": y, "w": wk, "dow": 0}, wk, b_)
            for w in sorted({1, wk, wk + 1, wk + 2, 52, 53, 54, 55, 0, -1, rng.randint(1, wk)}):
                dow = IsoDayOfWeek(rng.randint(1, 7))
                case = {"kind": "triple", "cal": cid, "rule": name, "y": y, "w": w, "dow": dow.value}
                ctx.ev(); ctx.count("direct_triples"); ctx.key((cid, "triple", irregular, (w > wk) - (w < 1), wk))
                try:
                    x = rule.get_local_date(y, w, dow, cal)
                except (ValueError, OverflowError) as e:
                    ctx.exc(e)
                    if 1 <= w <= wk and not (irregular and w in (1, wk)):      # the BCL-style rules have partial first/last weeks: some days of those do not exist
                        ctx.V("C16:valid-triple-refused", f"{cid} rule {name}: get_local_date({y}, week {w} of {wk}, {dow.name}) raised {e!r}", case, repr(e))
                    continue
                except Exception as e:  # noqa: BLE001
                    ctx.exc(e); ctx.V(f"C16:triple-raised:{exc_key(e)}", f"{cid} rule {name}: get_local_date({y}, {w}, {dow.name}) raised {e!r}", case, repr(e)); continue
                if not 1 <= w <= wk:
                    ctx.V("C16:week-outside-week-year-accepted", f"{cid} rule {name}: week-year {y} has {wk} weeks, but get_local_date({y}, week {w}, {dow.name}) returned {x!r} instead of refusing", case, repr(x), wk)
                    continue
                try:
                    got = (rule.get_week_year(x), rule.get_week_of_week_year(x), x.day_of_week)
                except Exception as e:  # noqa: BLE001
                    ctx.exc(e); got = repr(e)
                if got != (y, w, dow) or x.calendar is not cal:
                    ctx.V("C16:triple-does-not-report-itself", f"{cid} rule {name}: get_local_date({y}, {w}, {dow.name}) = {x!r}, which reports {got}", case, repr(got), (y, w, dow.value))
    ctx.sample({"kind": "rule", "cal": cid, "rule": "min4-first1", "d": ys.start(years[4])})
    # weekday navigation
    for _ in range(150 if ctx.tier == "quick" else 3000):
        a = rng.choice([lo + 8, hi - 8, rng.randint(lo + 8, hi - 8), rng.randint(-12, 12) if lo + 8 < -12 and hi - 8 > 12 else lo + 9]); x = gen.date_of(a, cal)
        from pyoda_time import DateAdjusters
        d0 = dow_of(a)
        case = {"kind": "nav", "cal": cid, "d": a}
        ctx.ev(); ctx.count("navigation"); ctx.key((cid, "nav", d0))
        if x.day_of_week.value != d0:
            ctx.V("C16:day-of-week", f"{cid} day {a}: day_of_week {x.day_of_week} but (d+3) mod 7 + 1 = {d0}", case, x.day_of_week.value, d0)
        for w in range(1, 8):
            W = IsoDayOfWeek(w)
            nx = (w - d0 - 1) % 7 + 1; pv = (d0 - w - 1) % 7 + 1
            exp = {"next": a + nx, "previous": a - pv, "next_or_same": a + (w - d0) % 7, "previous_or_same": a - (d0 - w) % 7}
            got = {"next": x.next(W), "previous": x.previous(W), "next_or_same": DateAdjusters.next_or_same(W)(x), "previous_or_same": DateAdjusters.previous_or_same(W)(x),
                   "adj-next": DateAdjusters.next(W)(x), "adj-previous": DateAdjusters.previous(W)(x)}
            for k, v in got.items():
                e = exp[k.replace("adj-", "")]
                if gen.day_of(v) != e or v.day_of_week != W or v.calendar is not cal:
                    ctx.V(f"C16:navigation:{k}", f"{cid} {x!r}.{k}({W.name}) = {v!r} (day {gen.day_of(v)}), model day {e}", dict(case, w=w), gen.day_of(v), e)
    # ... and within a week of the calendar's first and last day: an answer inside the range must be returned, one outside it must raise
    from pyoda_time import DateAdjusters
    for a in list(range(lo, lo + 8)) + list(range(hi - 7, hi + 1)):
        x = gen.date_of(a, cal); d0 = dow_of(a)
        case = {"kind": "nav-edge", "cal": cid, "d": a}
        ctx.key((cid, "nav-edge", a - lo if a - lo < 8 else a - hi))
        for w in range(1, 8):
            W = IsoDayOfWeek(w)
            nx = (w - d0 - 1) % 7 + 1; pv = (d0 - w - 1) % 7 + 1
            for k, e, fn in (("next", a + nx, lambda: x.next(W)), ("previous", a - pv, lambda: x.previous(W)),
                             ("next_or_same", a + (w - d0) % 7, lambda: DateAdjusters.next_or_same(W)(x)), ("previous_or_same", a - (d0 - w) % 7, lambda: DateAdjusters.previous_or_same(W)(x)),
                             ("adj-next", a + nx, lambda: DateAdjusters.next(W)(x)), ("adj-previous", a - pv, lambda: DateAdjusters.previous(W)(x))):
                ctx.ev(); ctx.count("navigation")
                try:
                    v = fn()
                except Exception as ex:  # noqa: BLE001
                    ctx.exc(ex)
                    if lo <= e <= hi:
                        ctx.V(f"C16:navigation-edge-raised:{k}", f"{cid} {x!r} (day {a}; calendar range [{lo},{hi}]).{k}({W.name}) raised {ex!r}; the answer, day {e}, is inside the calendar", dict(case, w=w), repr(ex), e)
                    continue
                if not lo <= e <= hi:
                    ctx.V(f"C16:navigation-edge-returned:{k}", f"{cid} {x!r}.{k}({W.name}) returned {v!r}; the answer (day {e}) lies outside the calendar's range and must be refused", dict(case, w=w), repr(v), e)
                elif gen.day_of(v) != e or v.day_of_week != W or v.calendar is not cal:
                    ctx.V(f"C16:navigation:{k}", f"{cid} {x!r}.{k}({W.name}) = {v!r} (day {gen.day_of(v)}), model day {e}", dict(case, w=w), gen.day_of(v), e)
    # the rule factories refuse a first day of week that is not a day (this port does not range-check the minimum-days argument: not judged)
    from pyoda_time.calendars import CalendarWeekRule, WeekYearRules
    for nm, fn in (("for_min_days_in_first_week(4, NONE)", lambda: WeekYearRules.for_min_days_in_first_week(4, IsoDayOfWeek.NONE)), ("for_min_days_in_first_week(1, 0)", lambda: WeekYearRules.for_min_days_in_first_week(1, 0)),
                   ("from_calendar_week_rule(FIRST_DAY, NONE)", lambda: WeekYearRules.from_calendar_week_rule(CalendarWeekRule.FIRST_DAY, IsoDayOfWeek.NONE)),
                   ("for_min_days_in_first_week(4, 8)", lambda: WeekYearRules.for_min_days_in_first_week(4, 8))):
        ctx.ev(); ctx.count("factory_error_contract")
        try:
            r_ = fn()
            ctx.V("C16:invalid-rule-accepted", f"WeekYearRules.{nm} returned a rule ({type(r_).__name__}) instead of refusing", {"kind": "factory", "call": nm})
        except (ValueError, TypeError) as e:
            ctx.exc(e)
        except Exception as e:  # noqa: BLE001
            ctx.exc(e); ctx.V(f"C16:invalid-rule-wrong-error:{type(e).__name__}", f"WeekYearRules.{nm} raised {e!r}", {"kind": "factory", "call": nm})
    x0 = gen.date_of(rng.randint(lo + 8, hi - 8), cal)
    for nm, fn in (("next(NONE)", lambda: x0.next(IsoDayOfWeek.NONE)), ("previous(NONE)", lambda: x0.previous(IsoDayOfWeek.NONE))):
        ctx.ev(); ctx.count("factory_error_contract")
        try:
            v_ = fn()
            ctx.V("C16:navigation-to-no-day-accepted", f"{cid} {x0!r}.{nm} returned {v_!r}", {"kind": "factory", "call": nm})
        except Exception as e:  # noqa: BLE001
            ctx.exc(e)
    ctx.counters.setdefault("iso_vs_stdlib", 0); ctx.counters.setdefault("nth_weekday", 0)


def lo_hi_ok(gen, cid, d):
    lo, hi = gen.cal_range(cid)
    return lo <= d - 6 and d <= hi


def sign(v):
    return (v > 0) - (v < 0)


def check_iso(ctx, o, full=True):
    from pyoda_time import IsoDayOfWeek, LocalDate
    from pyoda_time.calendars import WeekYearRules
    dd = dt.date.fromordinal(o); x = LocalDate.from_date(dd); ic = dd.isocalendar()
    r = WeekYearRules.iso
    ctx.ev()
    got = (r.get_week_year(x), r.get_week_of_week_year(x), x.day_of_week.value)
    if got != (ic[0], ic[1], ic[2]):
        ctx.V("C16:iso-vs-isocalendar", f"{dd}: ISO rule gives {got}, date.isocalendar() gives {tuple(ic)}", {"kind": "iso", "o": o}, got, tuple(ic))
    if full and 1 <= ic[0] <= 9999:
        back = LocalDate.from_week_year_week_and_day(ic[0], ic[1], IsoDayOfWeek(ic[2]))
        if back != x:
            ctx.V("C16:from_week_year_week_and_day", f"from_week_year_week_and_day{tuple(ic)} = {back!r}, expected {dd}", {"kind": "iso", "o": o}, repr(back))
        wk = r.get_weeks_in_week_year(ic[0])
        exp_wk = dt.date(ic[0], 12, 28).isocalendar()[1]
        if wk != exp_wk:
            ctx.V("C16:iso-weeks-in-year", f"weeks in ISO week-year {ic[0]}: {wk}, stdlib {exp_wk}", {"kind": "iso", "o": o}, wk, exp_wk)


def run_nth(ctx, n_years):
    from pyoda_time import IsoDayOfWeek, LocalDate
    rng = ctx.rng
    years = [1, 2, 1999, 2000, 2024, 9999, 1900, 2100] + [rng.randint(1, 9999) for _ in range(n_years)]
    for y in years:
        for m in range(1, 13):
            dim = pycal.monthrange(y, m)[1]
            for w in range(1, 8):
                days = [d for d in range(1, dim + 1) if dt.date(y, m, d).isoweekday() == w]
                for k in range(1, 6):
                    e = days[k - 1] if k <= len(days) else days[-1]
                    case = {"kind": "nth", "y": y, "m": m, "k": k, "w": w}
                    ctx.ev(); ctx.count("nth_weekday"); ctx.key(("nth", m, k, w, dim, dt.date(y, m, 1).isoweekday()))
                    try:
                        r = LocalDate.from_year_month_week_and_day(y, m, k, IsoDayOfWeek(w))
                    except Exception as ex:  # noqa: BLE001
                        ctx.exc(ex)
                        ctx.V("C16:nth-weekday-raised", f"from_year_month_week_and_day({y},{m},{k},{IsoDayOfWeek(w).name}) raised {ex!r}; expected day {e}", case, repr(ex), e); continue
                    if (r.year, r.month, r.day) != (y, m, e):
                        ctx.V("C16:nth-weekday", f"from_year_month_week_and_day({y},{m},{k},{IsoDayOfWeek(w).name}) = {r!r}; the {k}-th (5=last) {IsoDayOfWeek(w).name} of that month is day {e}", case, (r.year, r.month, r.day), (y, m, e))
    # argument validation
    for bad in ((2000, 1, 0, 1), (2000, 1, 6, 1), (2000, 13, 1, 1), (2000, 1, 1, 0)):
        ctx.ev()
        try:
            LocalDate.from_year_month_week_and_day(bad[0], bad[1], bad[2], IsoDayOfWeek(bad[3]) if 1 <= bad[3] <= 7 else bad[3])
            ctx.V("C16:nth-weekday-accepts-invalid", f"from_year_month_week_and_day{bad} returned", {"kind": "nth-bad", "args": list(bad)})
        except (ValueError, TypeError, AttributeError) as e:
            ctx.exc(e)
    ctx.sample({"kind": "nth", "y": 2024, "m": 2, "k": 5, "w": 4})
    for k in ("rule_evals", "iso_vs_stdlib", "navigation"):
        ctx.counters.setdefault(k, 0)


def run_mixed(ctx, n_years):
    """The SAME rule objects used alternately with several calendars at the same year numbers (a rule must not remember
    anything about the calendar it was last used with); judged against the week-1 model, fresh rule objects and isocalendar."""
    from pyoda_time import IsoDayOfWeek
    from vf import gen
    rng = ctx.rng
    rules = all_rules()
    cids = ["ISO", "Julian", "Gregorian", "Coptic", "Persian Simple", "Hebrew Civil", "Hijri Civil-Base15"]
    cals = {c: gen.cal_by_id(c) for c in cids}
    ys = {c: YearStarts(cals[c], c) for c in cids}
    for _ in range(n_years):
        y = rng.randint(1500, 3000)
        order = rng.sample(cids, len(cids))
        sub = [rules[0]] + rng.sample(rules[1:], 10)
        for name, rule, irregular, m, f in sub:
            fresh = dict((n_, r_) for n_, r_, *_ in all_rules())[name]
            for cid in order + order[:2]:
                cal = cals[cid]; lo, hi = gen.cal_range(cid)
                if not cal.min_year + 1 <= y <= cal.max_year - 1: continue
                s0 = ys[cid].start(y)
                for d in (s0 - 3, s0, s0 + 4, s0 + 200):
                    if not lo <= d <= hi: continue
                    x = gen.date_of(d, cal)
                    case = {"kind": "mixed", "cal": cid, "rule": name, "d": d}
                    ctx.ev(); ctx.count("rule_evals"); ctx.key(("mixed", name, cid))
                    try:
                        got = (rule.get_week_year(x), rule.get_week_of_week_year(x)); wk = rule.get_weeks_in_week_year(got[0], cal)
                        ref = (fresh.get_week_year(x), fresh.get_week_of_week_year(x)); wkf = fresh.get_weeks_in_week_year(ref[0], cal)
                        back = rule.get_local_date(got[0], got[1], x.day_of_week, cal)
                    except Exception as e:  # noqa: BLE001
                        ctx.exc(e); ctx.V(f"C16:mixed-calendar-raised:{type(e).__name__}", f"{cid} {x!r} rule {name} (rule object shared between calendars): raised {e!r}", case, repr(e)); continue
                    mdl = None if irregular else model_week(ys[cid], d, x.year, m, f)
                    if got != ref or wk != wkf or back != x or (mdl is not None and mdl[1] is not None and (mdl[0], mdl[1]) != got):
                        ctx.V("C16:rule-depends-on-previous-calendar", f"{cid} {x!r} rule {name}: a rule object previously used with other calendars reports (week-year, week) {got} / {wk} weeks, "
                              f"converts back to {back!r}; a fresh rule object reports {ref} / {wkf}; model {mdl}", case, got, ref)
                    if name == "iso" and cid in ("ISO", "Gregorian") and 1 <= x.year <= 9998:
                        import datetime as _dt
                        ic = _dt.date.fromordinal(d + UNIX).isocalendar()
                        if got != (ic[0], ic[1]):
                            ctx.V("C16:iso-vs-isocalendar", f"{x!r}: ISO rule object (shared between calendars) gives {got}; date.isocalendar() gives {tuple(ic)[:2]}", case, got, tuple(ic)[:2])
    # The same call with the same week-year number made back to back in several calendars on one held rule object (in the block
    # above every calendar switch is followed by a query for a *different* week-year, which would step over a one-entry memo);
    # each answer against a rule object made for that one call, and week 1 against the week-1 model.
    mk = {n_: f_ for n_, f_, *_ in rule_makers()}; cid_of = {id(c_): k_ for k_, c_ in cals.items()}
    for _ in range(n_years * 2):
        y = rng.randint(1500, 3000)
        name, rule, irregular, m, f = rules[0] if rng.random() < 0.15 else rng.choice(rules[1:])
        dow = IsoDayOfWeek(rng.randint(1, 7)); wk_no = rng.choice([1, 1, 2, 30, 52])
        calls = [("get_local_date", lambda r_, c_: r_.get_local_date(y, wk_no, dow, c_)),
                 ("get_weeks_in_week_year", lambda r_, c_: r_.get_weeks_in_week_year(y, c_)),
                 ("get_week_year(jan-1)", lambda r_, c_: (r_.get_week_year(gen.date_of(ys[cid_of[id(c_)]].start(y) + 10, c_)), r_.get_week_of_week_year(gen.date_of(ys[cid_of[id(c_)]].start(y) + 10, c_))))]
        rng.shuffle(calls)
        for cname, call in calls:
            for cid in rng.sample(cids, len(cids)):
                cal = cals[cid]
                if not cal.min_year + 1 <= y <= cal.max_year - 1: continue
                case = {"kind": "mixed", "cal": cid, "rule": name, "d": ys[cid].start(y)}
                ctx.ev(); ctx.count("rule_evals"); ctx.count("same_call_across_calendars"); ctx.key(("mixed-same-call", cname, cid))
                def outcome(r_):
                    try:
                        return call(r_, cal)
                    except (ValueError, OverflowError) as e:      # e.g. week 52 of a 354-day year: refused, the same way by both
                        ctx.exc(e); return ("raised", type(e).__name__, str(e))
                try:
                    got = outcome(rule); ref = outcome(mk[name]())
                except Exception as e:  # noqa: BLE001
                    ctx.exc(e); ctx.V(f"C16:mixed-calendar-raised:{type(e).__name__}", f"{cid} year {y} rule {name} {cname} (rule object shared between calendars): raised {e!r}", case, repr(e)); continue
                bad = got != ref
                if not bad and cname == "get_local_date" and not irregular and wk_no == 1:
                    w1 = week1_start(ys[cid], y, m, f)
                    exp = gen.date_of(w1 + (dow.value - f) % 7, cal) if lo_hi_ok(gen, cid, w1 + 6) else None
                    bad = exp is not None and got != exp
                    ref = (ref, exp)
                if bad:
                    ctx.V("C16:rule-depends-on-previous-calendar", f"{cid} year {y} rule {name}: {cname} on a rule object just asked the same for another calendar gives {got!r}; "
                          f"a rule object made for this call (and the week-1 model) gives {ref!r}", case, repr(got), repr(ref))
    ctx.sample({"kind": "mixed", "calendars": cids})
    for k in ("iso_vs_stdlib", "navigation", "nth_weekday"):
        ctx.counters.setdefault(k, 0)


def run(ctx, shard):
    part = shard["part"]
    if part == "mixed":
        run_mixed(ctx, shard["years"]); return
    if part == "rules":
        run_rules(ctx, shard["cal"], shard["years"])
    elif part == "iso":
        for o in range(shard["lo"], shard["hi"] + 1):
            check_iso(ctx, o, full=(o % 5 == 0))
        n = shard["hi"] - shard["lo"] + 1
        ctx.count("iso_vs_stdlib", n); ctx.distinct(n)
        for k in ("rule_evals", "navigation", "nth_weekday"):
            ctx.counters.setdefault(k, 0)
    elif part == "iso_sample":
        rng = ctx.rng
        ords = set(range(1, 40)) | set(range(MAXORD - 40, MAXORD + 1))
        for y in list(range(1, 10000, 3)):
            j = dt.date(y, 1, 1).toordinal()
            for k in range(-4, 5):
                if 1 <= j + k <= MAXORD: ords.add(j + k)
        ords |= {rng.randint(1, MAXORD) for _ in range(20000)}
        for o in sorted(ords):
            check_iso(ctx, o)
            ctx.key(("iso", dt.date.fromordinal(o).isocalendar()[1], dt.date.fromordinal(o).isoweekday(), dt.date.fromordinal(o).month))
        ctx.count("iso_vs_stdlib", len(ords)); ctx.sample({"kind": "iso", "o": 730120})
        for k in ("rule_evals", "navigation", "nth_weekday"):
            ctx.counters.setdefault(k, 0)
    else:
        run_nth(ctx, shard["years"])


def replay(ctx, case):
    ctx.distinct(2)
    k = case["kind"]
    if k == "iso":
        check_iso(ctx, case["o"])
    elif "part" in ctx.shard:
        run(ctx, ctx.shard)      # original shard restored by the runner: the same seeded windows are revisited
    elif k in ("nth", "nth-bad"):
        run_nth(ctx, 5)
    else:
        run_rules(ctx, case["cal"], 4)
