"""C14 — the tz database binary codec is lossless and canonical (DESIGN §3 C14).

Monitors: write with the real writer -> read with the real reader (equality + exact consumption) AND decode the written bytes
with the independent reference reader (vf/models/nzd_ref.py); minimal-length model for millisecond values; canonical
re-encoding of every rule-based zone of both real database files, attributed to the field where the bytes first differ.
"""
from __future__ import annotations

import io

LEVEL = "exploration"
RULE = ("counts 0..2^14 and powers of two +-1; signed likewise; milliseconds: every whole second, every half hour +-{0,1,29,30,31} ms, seeded (quick) / ALL "
        "172,799,999 values (thorough, exhaustive); offsets every 7 s; (previous, value) transition pairs covering markers, whole-hour deltas in/out of "
        "[2^7,2^21), whole minutes since 1800 in/out of (2^21,2^31], raw ticks; strings with/without pool; dictionaries; generated yearly rules, recurrences, "
        "alternating maps, precalculated and fixed zones; all 724 rule-based zones of the two real files re-encoded; distinct key = (primitive, encoding branch)")
ASSUMPTIONS = ["documented compact encodings as implemented by the independent reader (Appendix A.1)", "the two real files were produced by the reference Noda Time compiler", "a recurrence whose finite from_year is <= 0 is, as documented in _ZoneRecurrence._write (and upstream), stored as starting at the beginning of time; the lossless domain is from_year in {Int32.MinValue} U [1, 9999]"]
MIN_NT = {"quick": 40, "thorough": 40}
REQUIRED = {"any": ["counts", "millis", "offsets", "transitions", "strings", "composites", "zones_reencoded"]}
EXHAUSTIVE = {"thorough": True}

MS = 86400000
TICKS_HOUR = 36000000000
TICKS_MIN = 600000000


def shards(tier, seed):
    out = [{"name": "primitives", "part": "prims"}, {"name": "composites", "part": "composites"}, {"name": "reencode:bundled", "part": "reencode", "file": "bundled"},
           {"name": "reencode:2013b", "part": "reencode", "file": "2013b"}, {"name": "transitions", "part": "transitions", "n": 20000 if tier == "quick" else 400000}]
    if tier == "thorough":
        n = 64; lo = -MS + 1; total = 2 * MS - 1; step = (total + n - 1) // n
        out += [{"name": f"millis:{i}", "part": "millis_all", "lo": lo + i * step, "hi": min(MS - 1, lo + (i + 1) * step - 1)} for i in range(n)]
    return out


def codec():
    from pyoda_time.time_zones.io._date_time_zone_reader import _DateTimeZoneReader as R
    from pyoda_time.time_zones.io._date_time_zone_writer import _DateTimeZoneWriter as W
    return R, W


def rt(wr, rd, val, pool=None, eq=None):
    """write -> read -> compare; returns (problem | None, bytes)."""
    R, W = codec()
    wpool = pool if pool is None else list(pool)   # the writer grows its pool; the reader is given the writer's final pool
    b = io.BytesIO(); w = W._ctor(b, wpool)
    try:
        wr(w, val)
    except Exception as e:  # noqa: BLE001
        return ("write-raised", repr(e)[:80]), b""
    data = b.getvalue(); s = io.BytesIO(data); r = R._ctor(s, wpool)
    try:
        got = rd(r)
    except Exception as e:  # noqa: BLE001
        return ("read-raised", repr(e)[:80], data.hex()), data
    if s.tell() != len(data) or r.has_more_data:
        return ("not-exactly-consumed", len(data), s.tell()), data
    if not (eq(got, val) if eq else got == val):
        return ("value-changed", repr(got)[:80], data.hex()), data
    # canonical: writing what was read gives the same bytes again (same pool)
    b2 = io.BytesIO()
    try:
        wr(W._ctor(b2, wpool), got)
    except Exception as e:  # noqa: BLE001
        return ("rewrite-raised", repr(e)[:80]), data
    if b2.getvalue() != data:
        return ("rewrite-differs", b2.getvalue().hex()[:80], data.hex()[:80]), data
    return None, data


def millis_len(v):
    u = v + MS
    return 1 if u % 1800000 == 0 else (2 if u % 60000 == 0 else (3 if u % 1000 == 0 else 4))


def check_millis(ctx, v):
    from vf.models import nzd_ref
    p, data = rt(lambda w, x: w.write_milliseconds(x), lambda r: r.read_milliseconds(), v)
    if p:
        ctx.V(f"C14:milliseconds:{p[0]}", f"write_milliseconds({v}) / read_milliseconds: {p}", {"kind": "millis", "v": v}, p); return
    ref = nzd_ref.R(data).millis()
    if ref != v:
        ctx.V("C14:milliseconds:reference-decodes-other", f"write_milliseconds({v}) wrote {data.hex()}, which the independent reader decodes as {ref}", {"kind": "millis", "v": v}, ref, v)
    if len(data) != millis_len(v):
        ctx.V("C14:milliseconds:not-compact", f"write_milliseconds({v}) used {len(data)} byte(s) ({data.hex()}); the documented compact form needs {millis_len(v)}", {"kind": "millis", "v": v}, len(data), millis_len(v))


def run_prims(ctx):
    from pyoda_time import Offset
    from vf.models import nzd_ref
    rng = ctx.rng
    for v in list(range(0, 20000)) + [2**k + d for k in range(7, 31) for d in (-1, 0, 1)] + [2**31 - 1]:
        p, data = rt(lambda w, x: w.write_count(x), lambda r: r.read_count(), v)
        ctx.ev(); ctx.counters["counts"] += 1; ctx.key(("count", len(data)))
        if p: ctx.V(f"C14:count:{p[0]}", f"write_count({v}): {p}", {"kind": "count", "v": v}, p)
        elif nzd_ref.R(data).count() != v: ctx.V("C14:count:reference-decodes-other", f"write_count({v}) wrote {data.hex()}", {"kind": "count", "v": v})
    for v in (-1, 2**31, 2**40):
        ctx.ev()
        try:
            R, W = codec(); W._ctor(io.BytesIO(), None).write_count(v)
            if v < 0: ctx.V("C14:count:negative-accepted", f"write_count({v}) did not raise", {"kind": "count", "v": v})
        except (ValueError, OverflowError) as e:
            ctx.exc(e)
    for v in list(range(-20000, 20000)) + [s * (2**k + d) for k in range(7, 31) for d in (-1, 0, 1) for s in (1, -1)] + [2**31 - 1, -2**31]:
        p, data = rt(lambda w, x: w.write_signed_count(x), lambda r: r.read_signed_count(), v)
        ctx.ev(); ctx.counters["counts"] += 1; ctx.key(("scount", len(data), v < 0))
        if p: ctx.V(f"C14:signed-count:{p[0]}", f"write_signed_count({v}): {p}", {"kind": "scount", "v": v}, p)
        elif nzd_ref.R(data).scount() != v: ctx.V("C14:signed-count:reference-decodes-other", f"write_signed_count({v}) wrote {data.hex()}", {"kind": "scount", "v": v})
    vals = set(range(-MS + 1, MS, 1000)) | {k * 1800000 + d for k in range(-47, 48) for d in (-31, -30, -29, -1, 0, 1, 29, 30, 31)} | {rng.randint(-MS + 1, MS - 1) for _ in range(200000 if ctx.tier == "quick" else 10)}
    vals |= {k * 60000 + d for k in range(-1439, 1440, 7) for d in (-1, 0, 1)}
    for v in vals:
        if not -MS < v < MS: continue
        ctx.evaluations += 1; ctx.counters["millis"] += 1
        check_millis(ctx, v)
    for L in (1, 2, 3, 4):
        ctx.key(("millis", L))
    for v in (-1, -2, -128, -255, -256, 256, 257, 1000, -1000):
        ctx.ev()
        bb_ = io.BytesIO()
        try:
            R, W = codec(); W._ctor(bb_, None).write_byte(v)
            ctx.V("C14:byte:out-of-domain-accepted", f"write_byte({v}) did not raise and wrote {bb_.getvalue().hex()} (a byte is 0..255)", {"kind": "byte", "v": v})
        except Exception as e:  # noqa: BLE001
            ctx.exc(e)
    for v in range(256):
        p_, data_ = rt(lambda w, x: w.write_byte(x), lambda r: r.read_byte(), v)
        ctx.ev(); ctx.counters["counts"] += 1
        if p_ or data_ != bytes([v]): ctx.V("C14:byte:value", f"write_byte({v}): {p_} {data_.hex()}", {"kind": "byte", "v": v})
    for v in (-MS, MS, MS + 1, -MS - 1, 2 * MS):
        ctx.ev()
        try:
            R, W = codec(); W._ctor(io.BytesIO(), None).write_milliseconds(v)
            ctx.V("C14:milliseconds:out-of-domain-accepted", f"write_milliseconds({v}) did not raise (domain is one day either side of zero, exclusive)", {"kind": "millis", "v": v})
        except (ValueError, OverflowError) as e:
            ctx.exc(e)
    for s in list(range(-18 * 3600, 18 * 3600 + 1, 7)) + [64800, -64800, 1, -1, 1800, -1800, 3600]:
        o = Offset.from_seconds(s)
        p, data = rt(lambda w, x: w.write_offset(x), lambda r: r.read_offset(), o)
        ctx.ev(); ctx.counters["offsets"] += 1; ctx.key(("offset", len(data)))
        if p: ctx.V(f"C14:offset:{p[0]}", f"write_offset({s} s): {p}", {"kind": "offset", "s": s}, p)
        elif len(data) != millis_len(s * 1000): ctx.V("C14:offset:not-compact", f"write_offset({s} s) used {len(data)} bytes, compact form needs {millis_len(s * 1000)}", {"kind": "offset", "s": s})
    for s in ["", "a", "GMT", "é漢字😀", "x" * 300, "\0", "Europe/London", "a" * 127, "b" * 128]:
        for pool in (None, ["a", "GMT", "zzz", "Europe/London", ""]):
            p, data = rt(lambda w, x: w.write_string(x), lambda r: r.read_string(), s, pool=pool)
            ctx.ev(); ctx.counters["strings"] += 1; ctx.key(("string", pool is not None, len(s.encode()) > 127))
            if p: ctx.V(f"C14:string:{p[0]}", f"write_string({s[:20]!r}, pool={pool is not None}): {p}", {"kind": "string", "s": s[:20]}, p)
            elif nzd_ref.R(data, (pool + [s]) if (pool is not None and s not in pool) else pool).string() != s: ctx.V("C14:string:reference-decodes-other", f"write_string({s[:20]!r}) wrote {data[:20].hex()}", {"kind": "string", "s": s[:20]})
    for n in (0, 1, 2, 50):
        d = {f"k{i}": f"v{i}é" for i in range(n)}
        p, data = rt(lambda w, x: w.write_dictionary(x), lambda r: r.read_dictionary(), d)
        ctx.ev(); ctx.counters["strings"] += 1; ctx.key(("dict", n))
        if p: ctx.V(f"C14:dictionary:{p[0]}", f"write_dictionary({n} entries): {p}", {"kind": "dict", "n": n}, p)
    # one writer, many writes, caller-owned pool: the list belongs to the caller (the repository's own I/O helper clears it between
    # round trips, a pool optimiser reorders it); every string written must decode with the pool as it stands afterwards
    R, W = codec()
    words = ["STD", "DST", "LMT", "Zone/One", "X", "", "Europe/London", "é", "a" * 200]
    for trial in range(60 if ctx.tier == "quick" else 1200):
        pl = rng.sample(words, rng.randint(0, 4)); b = io.BytesIO(); w = W._ctor(b, pl)
        written = []
        ok = True
        for step in range(rng.randint(2, 5)):
            for s in rng.choices(words, k=rng.randint(1, 5)):
                try:
                    w.write_string(s); written.append(s)
                except Exception as e:  # noqa: BLE001
                    ctx.exc(e); ctx.V("C14:string-sequence:write-raised", f"write_string({s!r}) raised {e!r} on a writer whose pool the caller had changed", {"kind": "stringseq"}); ok = False; break
            if not ok: break
            # decode everything written since the last pool change
            data = b.getvalue(); r = R._ctor(io.BytesIO(data), pl)
            try:
                got = [r.read_string() for _ in written]
            except Exception as e:  # noqa: BLE001
                ctx.exc(e); got = repr(e)
            ctx.ev(); ctx.counters["string_sequences"] += 1; ctx.key(("stringseq", step, len(pl) > 4))
            if got != written:
                ctx.V("C14:string-sequence:reads-other", f"strings {written!r} written through one pooled writer (pool changed by its owner between batches) read back as {got!r} with the final pool {pl!r}", {"kind": "stringseq"}, got, written)
                break
            # the owner changes the pool, then starts a new batch on the same writer
            how = rng.randrange(4)
            if how == 0: pl.clear()
            elif how == 1: pl.reverse()
            elif how == 2: pl.sort()
            else: pl.insert(0, "NEW%d" % step)
            b.seek(0); b.truncate(); written = []
    # mixed sequences through one writer / one reader, with the reader's look-ahead (has_more_data) consulted 0-3 times before each read:
    # peeking is idempotent, is True exactly while bytes remain, and never changes what is read next
    from pyoda_time import Offset
    for trial in range(150 if ctx.tier == "quick" else 4000):
        pl = rng.choice([None, ["", "A", "STD"], ["-03", "Etc/GMT+3"]])
        b = io.BytesIO(); w = W._ctor(b, None if pl is None else list(pl))
        items = []
        for _ in range(rng.randint(1, 7)):
            kind = rng.choice(["count", "scount", "string", "millis", "byte", "offset"])
            if kind == "count": v = rng.choice([0, 0, 1, 127, 128, rng.getrandbits(rng.choice([3, 14, 31]))]); w.write_count(v)
            elif kind == "scount": v = rng.choice([0, -1, 1, 63, -64, rng.randint(-2**31, 2**31 - 1)]); w.write_signed_count(v)
            elif kind == "string": v = rng.choice(["", "A", "STD", "-03", "x" * rng.randint(1, 130)]); w.write_string(v)
            elif kind == "millis": v = rng.choice([0, -MS + 1 + 0, 1800000, -1800000, rng.randrange(-MS + 1, MS)]); w.write_milliseconds(v)
            elif kind == "byte": v = rng.choice([0, 0, 1, 255, rng.randrange(256)]); w.write_byte(v)
            else: v = rng.choice([0, -86400 + 1800 if False else -64800, 64800, rng.randrange(-64800, 64801)]); w.write_offset(Offset.from_seconds(v))
            items.append((kind, v))
        data = b.getvalue(); st = io.BytesIO(data)
        if trial % 3 == 2:
            # a stream that delivers its bytes in short reads (a pipe, a socket, an unbuffered file): read(n) may return fewer than n bytes
            class Chunked(io.RawIOBase):
                def __init__(self, raw, k): self.raw = raw; self.k = k
                def readable(self): return True
                def read(self, n=-1):
                    return self.raw.read(self.k if n is None or n < 0 else min(n, self.k))
                def readinto(self, buf):
                    d = self.read(len(buf)); buf[:len(d)] = d; return len(d)
                def tell(self): return self.raw.tell()
            st = Chunked(io.BytesIO(data), rng.choice([1, 2, 3, 7, 64]))
        r = R._ctor(st, None if pl is None else list(w._DateTimeZoneWriter__string_pool) if hasattr(w, "_DateTimeZoneWriter__string_pool") else pl)
        case = {"kind": "peekseq", "items": [[k, v if not isinstance(v, str) else v[:8]] for k, v in items], "pool": pl is not None}
        ctx.ev(); ctx.counters["peek_sequences"] += 1; ctx.key(("peekseq", len(items), pl is not None, data[:1] == b"\0"))
        bad = None
        try:
            for kind, v in items:
                for _ in range(rng.choice([0, 1, 2, 3])):
                    if r.has_more_data is not True: bad = f"has_more_data is not True before reading {kind} {v!r}"; break
                if bad: break
                got = {"count": r.read_count, "scount": r.read_signed_count, "string": r.read_string, "millis": r.read_milliseconds, "byte": r.read_byte,
                       "offset": lambda: r.read_offset().seconds}[kind]()
                if got != v: bad = f"{kind} {v!r} read back as {got!r}"; break
            if bad is None:
                for _ in range(rng.choice([1, 2, 3])):
                    if r.has_more_data is not False: bad = "has_more_data is not False at the end of the data"; break
        except Exception as e:  # noqa: BLE001
            ctx.exc(e); bad = f"raised {e!r}"
        if bad:
            ctx.V("C14:reader-lookahead-sequence", f"writing {case['items']} (pool={pl is not None}) gives {data[:24].hex()}; reading it back with look-ahead peeks: {bad}", case)
    ctx.sample({"kind": "millis", "v": 1800030, "compact_bytes": millis_len(1800030)})


def transition_form(prev_ticks, val_ticks, e1800):
    """Documented canonical form of a transition: 'hours' | 'minutes' | 'raw'."""
    if prev_ticks is not None:
        d = val_ticks - prev_ticks
        if d % TICKS_HOUR == 0 and 128 <= d // TICKS_HOUR < 2**21:
            return "hours"
    if val_ticks >= e1800:
        d = val_ticks - e1800
        if d % TICKS_MIN == 0 and 2**21 < d // TICKS_MIN <= 2**31 - 1:
            return "minutes"
    return "raw"


def run_transitions(ctx, n):
    from pyoda_time import Instant
    from vf import gen
    from vf.models import nzd_ref
    rng = ctx.rng
    IMINT = gen.INST_MIN_NS // 100; IMAXT = gen.INST_MAX_NS // 100
    inst = Instant.from_unix_time_ticks
    E1800 = Instant.from_utc(1800, 1, 1, 0, 0).to_unix_time_ticks()
    bmin, amax = Instant._before_min_value(), Instant._after_max_value()
    for it in range(n):
        kind = it % 8
        pt = rng.choice([None, "bmin", rng.randint(IMINT, IMAXT), rng.randint(E1800, E1800 + 2**31 * TICKS_MIN)])
        if kind == 0: vt = rng.choice(["bmin", "amax"])
        elif kind in (1, 2) and isinstance(pt, int):
            h = rng.choice([1, 127, 128, 129, 4368, 2**21 - 1, 2**21, 2**21 + 1, rng.randint(1, 2**22), rng.randint(128, 9000)])
            vt = pt + h * TICKS_HOUR + (rng.choice([0, 0, 0, 1, TICKS_MIN]) if kind == 2 else 0)
        elif kind == 3:
            m = rng.choice([2**21 - 1, 2**21, 2**21 + 1, 2**31 - 1, 2**31, 2**31 + 1, rng.randint(0, 2**31 + 5)]); vt = E1800 + m * TICKS_MIN + rng.choice([0, 0, 0, 1, 10**7])
        elif kind == 4: vt = E1800 - rng.choice([0, TICKS_MIN, 1, rng.randint(1, 10**15)])
        else: vt = rng.randint(IMINT, IMAXT)
        if isinstance(vt, int) and not IMINT <= vt <= IMAXT: continue
        if isinstance(pt, int) and isinstance(vt, int) and vt < pt: continue
        if vt == "bmin" and isinstance(pt, int): continue
        prev = None if pt is None else (bmin if pt == "bmin" else inst(pt))
        val = bmin if vt == "bmin" else (amax if vt == "amax" else inst(vt))
        case = {"kind": "transition", "prev": pt, "val": vt}
        p, data = rt(lambda w, x: w.write_zone_interval_transition(prev, x), lambda r: r.read_zone_interval_transition(prev), val)
        ctx.ev(); ctx.counters["transitions"] += 1
        if p:
            ctx.V(f"C14:transition:{p[0]}", f"write_zone_interval_transition(prev={pt}, value={vt}): {p}", case, p); continue
        prev_ns = pt * 100 if isinstance(pt, int) else None
        ref = nzd_ref.R(data).transition(prev_ns)
        want = "-inf" if vt == "bmin" else ("+inf" if vt == "amax" else vt * 100)
        if ref != want:
            ctx.V("C14:transition:reference-decodes-other", f"transition(prev={pt}, value={vt}) wrote {data.hex()}, which the independent reader decodes as {ref}", case, ref, want)
        if isinstance(vt, int):
            form = transition_form(pt if isinstance(pt, int) else None, vt, E1800)
            first = nzd_ref.R(data).count()
            got_form = "raw" if first == 2 else ("hours" if 128 <= first < 2**21 else ("minutes" if first >= 2**21 else "marker"))
            ctx.key(("transition", form, pt is None, pt == "bmin"))
            if got_form != form:
                ctx.V(f"C14:transition:not-compact:{form}", f"transition(prev={pt}, value={vt}) was written in the {got_form} form ({len(data)} bytes); the documented compact form is {form}", case, got_form, form)
        else:
            ctx.key(("transition", "marker", vt))
    # instants that are not on a 100 ns tick: a transition a whole number of hours after such a previous one is written in the hours form and
    # must read back exactly (previous + hours), sub-tick part included
    for it in range(max(40, n // 40)):
        pt = rng.randint(IMINT // 2, IMAXT // 2); sub = rng.choice([1, 50, 99, rng.randint(1, 99)])
        h = rng.choice([128, 129, 4368, 2**21 - 1, rng.randint(128, 9000)])
        prev = inst(pt).plus_nanoseconds(sub); val = inst(pt + h * TICKS_HOUR).plus_nanoseconds(sub)
        case = {"kind": "transition-subtick", "prev": pt, "sub": sub, "h": h}
        p, data = rt(lambda w, x: w.write_zone_interval_transition(prev, x), lambda r: r.read_zone_interval_transition(prev), val)
        ctx.ev(); ctx.counters["transitions"] += 1; ctx.key(("transition-subtick", h == 128))
        if p:
            ctx.V(f"C14:transition-subtick:{p[0]}", f"previous = tick {pt} + {sub} ns, value = previous + {h} h: {p}", case, p)
    ctx.sample({"kind": "transition", "prev": 0, "val": 4368 * TICKS_HOUR, "form": "hours"})


def run_composites(ctx):
    from pyoda_time import Instant, LocalTime, Offset
    from pyoda_time.time_zones import ZoneInterval
    from pyoda_time.time_zones._fixed_date_time_zone import _FixedDateTimeZone
    from pyoda_time.time_zones._precalculated_date_time_zone import _PrecalculatedDateTimeZone
    from pyoda_time.time_zones._standard_daylight_alternating_map import _StandardDaylightAlternatingMap
    from pyoda_time.time_zones._transition_mode import _TransitionMode
    from pyoda_time.time_zones._zone_recurrence import _ZoneRecurrence
    from pyoda_time.time_zones._zone_year_offset import _ZoneYearOffset
    from vf import gen
    rng = ctx.rng
    pool = ["STD", "DST", "Zone/One", "LMT", "X"]
    def beh(z, q):
        try:
            return ("ok", z.get_zone_interval(gen.ns_inst(q)))
        except Exception as e:  # noqa: BLE001  (generated rules may be unanswerable at the end of time: same outcome required on both sides)
            return ("raised", type(e).__name__)

    def gen_yo():
        dom = rng.choice([1, 15, 28, 29, 31, -1, -7, rng.randint(1, 28)])
        month = rng.randint(1, 12)
        if dom > 28 and month == 2: dom = 29
        if dom == 31 and month in (4, 6, 9, 11): dom = 30
        add_day = rng.random() < 0.2
        tod = LocalTime.midnight if add_day else LocalTime.from_milliseconds_since_midnight(rng.choice([0, 7200000, 3600000, 1800000, 60000, 1000, 1, rng.randrange(MS)]))
        return _ZoneYearOffset._ctor(_TransitionMode(rng.randrange(3)), month, dom, rng.randint(0, 7), rng.random() < 0.5, tod, add_day)
    n = 400 if ctx.tier == "quick" else 6000
    for _ in range(n):
        yo = gen_yo()
        p, data = rt(lambda w, x: x._write(w), lambda r: _ZoneYearOffset.read(r), yo)
        ctx.ev(); ctx.counters["composites"] += 1; ctx.key(("yearoffset", len(data)))
        if p: ctx.V(f"C14:year-offset:{p[0]}", f"_ZoneYearOffset {yo!r}: {p}", {"kind": "yearoffset", "repr": repr(yo)}, p)
        fy = rng.choice([-(2**31), 1900, 2007, 1, 9999, 2, rng.randint(1800, 2100)])   # finite from_year <= 0 is documented to be stored as "start of time": outside the lossless domain
        ty = rng.choice([2**31 - 1, 2037, 1999 + 50, 9999, 9998, max(fy, rng.randint(1800, 9999))])
        if ty < fy: ty = 2**31 - 1
        try:
            _ZoneRecurrence("X", Offset.zero, yo, fy, ty)
        except (ValueError, OverflowError) as e:      # the constructor refuses it (year domain; rule unanswerable at the very end of the range): nothing to write
            ctx.exc(e); fy, ty = 1900, 2037
        if rng.random() < 0.08:
            fy, ty = -(2**31), rng.choice([-1, -5, -9998, 0])          # ends before the common era: the writer must refuse it or keep it
            try:
                _ZoneRecurrence("X", Offset.zero, yo, fy, ty)
            except (ValueError, OverflowError) as e:
                ctx.exc(e); fy, ty = 1900, 2037
        rec = _ZoneRecurrence(rng.choice(pool), Offset.from_seconds(rng.choice([0, 3600, 1800, 7200, -3600])), yo, fy, ty)
        for pl in (None, pool):
            p, data = rt(lambda w, x: x._write(w), lambda r: _ZoneRecurrence.read(r), rec, pool=pl)
            ctx.ev(); ctx.counters["composites"] += 1
            if p and p[0] == "write-raised" and ty <= 0:
                ctx.count("recurrence_bc_refused"); continue          # not accepted by the writer: nothing to read back
            if p: ctx.V(f"C14:recurrence:{p[0]}", f"_ZoneRecurrence {rec!r} (pool={pl is not None}): {p}", {"kind": "recurrence", "repr": repr(rec)}, p)
    for _ in range(n // 4):
        std = Offset.from_seconds(rng.choice([0, 3600, -18000, 19800, 34200, rng.randrange(-50000, 50000)]))
        sav = Offset.from_seconds(rng.choice([3600, 1800, 7200, -3600, 0, 1]))
        y1, y2 = gen_yo(), gen_yo()
        r_std, r_dst = _ZoneRecurrence("STD", Offset.zero, y1, -(2**31), 2**31 - 1), _ZoneRecurrence("DST", sav, y2, -(2**31), 2**31 - 1)
        if rng.random() < 0.5: r_std, r_dst = r_dst, r_std      # the two recurrences may be given in either order
        try:
            m = _StandardDaylightAlternatingMap._ctor(std, r_std, r_dst)
        except Exception as e:  # noqa: BLE001
            ctx.exc(e); continue
        p, data = rt(lambda w, x: x._write(w), lambda r: _StandardDaylightAlternatingMap._read(r), m, pool=pool)
        ctx.ev(); ctx.counters["composites"] += 1; ctx.key(("altmap",))
        if p: ctx.V(f"C14:alternating-map:{p[0]}", f"_StandardDaylightAlternatingMap(std={std.seconds}, sav={sav.seconds}, {y1!r}, {y2!r}): {p}", {"kind": "altmap"}, p); continue
        # behaviour equality on probe instants
        R, W = codec()
        m2 = _StandardDaylightAlternatingMap._read(R._ctor(io.BytesIO(data), pool))
        for q in [rng.randint(0, 4 * 10**18) for _ in range(4)]:
            try:
                a = m.get_zone_interval(gen.ns_inst(q)); b = m2.get_zone_interval(gen.ns_inst(q))
            except Exception as e:  # noqa: BLE001
                ctx.exc(e); continue
            if a != b: ctx.V("C14:alternating-map:behaviour-changed", f"map behaves differently after write/read at {q}", {"kind": "altmap"})
        # precalculated zone with this tail
        t0 = rng.randint(-3 * 10**18, 10**18) // (3600 * 10**9) * 3600 * 10**9
        cuts = sorted({t0 + rng.choice([3600, 4368 * 3600, 90 * 60, 1, 86400 * 200, 127 * 3600, 128 * 3600, 2**21 * 3600]) * 10**9 * (i + 1) for i in range(rng.randint(1, 6))})
        ivs = []; start = None
        for i, c in enumerate(cuts):
            ivs.append(ZoneInterval(name=rng.choice(pool), start=None if start is None else gen.ns_inst(start), end=gen.ns_inst(c), wall_offset=Offset.from_seconds(3600 * (i % 3)), savings=Offset.from_seconds(3600 * (i % 2))))
            start = c
        tail = m if rng.random() < 0.6 else None
        if tail is None:
            ivs.append(ZoneInterval(name="X", start=gen.ns_inst(start), end=None, wall_offset=Offset.from_seconds(-3600), savings=Offset.zero))
        try:
            z = _PrecalculatedDateTimeZone("Zone/One", ivs, tail)
        except Exception as e:  # noqa: BLE001
            ctx.exc(e); continue
        p, data = rt(lambda w, x: x._write(w), lambda r: _PrecalculatedDateTimeZone._read(r, "Zone/One"), z, pool=pool,
                     eq=lambda a, b: all(beh(a, q) == beh(b, q) for q in [gen.INST_MIN_NS, gen.INST_MAX_NS] + cuts + [c - 1 for c in cuts] + [rng.randint(-4 * 10**18, 8 * 10**18) for _ in range(6)]))
        ctx.ev(); ctx.counters["composites"] += 1; ctx.key(("precalc", tail is not None, len(ivs)))
        if p: ctx.V(f"C14:precalculated-zone:{p[0]}", f"_PrecalculatedDateTimeZone with {len(ivs)} intervals, tail={tail is not None}: {p}", {"kind": "precalc"}, p)
    for s in [0, 3600, -3600, 19800, 1, 64800, -64800] + [rng.randint(-64800, 64800) for _ in range(40)]:
        for name in (None, "NAME", "", " ", "0", "-05"):
            z = _FixedDateTimeZone(Offset.from_seconds(s), "Fixed/Id", name) if name is not None else _FixedDateTimeZone(Offset.from_seconds(s), "Fixed/Id")
            # this port has no writer method for fixed zones: the documented layout (offset, then name) is written with the real primitives;
            # the name written is the one asked for (not what the constructed object reports), and the decoded zone is judged on its own accessors
            wname = name if name is not None else z.name
            wr = (lambda w, x, wname=wname: (w.write_offset(Offset.from_seconds(s)), w.write_string(wname)))
            def same(got, val, wname=wname, s=s):
                from vf import gen
                iv = got.get_zone_interval(gen.ns_inst(0))
                return got.id == "Fixed/Id" and got.name == wname and iv.name == wname and iv.wall_offset.seconds == s and got.offset.seconds == s
            p, data = rt(wr, lambda r: _FixedDateTimeZone.read(r, "Fixed/Id"), z, pool=["Fixed/Id", "NAME"], eq=same)
            ctx.ev(); ctx.counters["composites"] += 1; ctx.key(("fixed", name))
            if p: ctx.V(f"C14:fixed-zone:{p[0]}", f"fixed zone record (offset {s} s, name {wname!r}) read back: {p}", {"kind": "fixed", "s": s, "name": wname}, p)
    ctx.sample({"kind": "composites", "year_offsets": n, "maps": n // 4})


def traced_spans(body, pool):
    """Field spans of a precalculated zone body (after id and type byte) by the independent reader: [(kind, start, end)]."""
    from vf.models import nzd_ref
    r = nzd_ref.R(body, pool); spans = []
    def sp(kind, fn):
        a = r.i; v = fn(); spans.append((kind, a, r.i)); return v
    n = sp("count", r.count)
    start = sp("transition:first", lambda: r.transition(None))
    for k in range(n):
        sp("name", r.string); sp("millis:wall", r.millis); sp("millis:savings", r.millis)
        prev = start if start not in ("-inf", "+inf") else None
        start = sp("transition:hours-or-minutes-or-raw", lambda: r.transition(prev))
    if sp("has-tail", r.byte) == 1:
        sp("millis:tail-standard", r.millis); sp("name", r.string)
        for which in ("std-rule", "dst-rule"):
            sp(f"{which}:flags", r.byte); sp(f"{which}:month", r.count); sp(f"{which}:day", r.scount); sp(f"{which}:millis:time-of-day", r.millis)
            if which == "std-rule": sp("name", r.string)
        sp("millis:tail-savings", r.millis)
    return spans


def run_reencode(ctx, which):
    from pyoda_time.time_zones._precalculated_date_time_zone import _PrecalculatedDateTimeZone
    from vf.models import nzd_ref
    from vf.props.c06 import file_bytes
    R, W = codec()
    data = file_bytes(which)
    if data is None:
        ctx.note(f"file {which} absent: skipped"); return
    pool, zones, idmap, version = nzd_ref.parse(data)
    for zid, body in sorted(zones.items()):
        r = nzd_ref.R(body, pool); r.string(); typ = r.byte()
        if typ != 2:
            continue
        rest = body[r.i:]
        ctx.ev(); ctx.counters["zones_reencoded"] += 1; ctx.nt_extra += 1
        case = {"kind": "reencode", "file": which, "zone": zid}
        try:
            z = _PrecalculatedDateTimeZone._read(R._ctor(io.BytesIO(rest), pool), zid)
            out = io.BytesIO(); z._write(W._ctor(out, list(pool)))
        except Exception as e:  # noqa: BLE001
            ctx.exc(e); ctx.V(f"C14:reencode:raised:{type(e).__name__}", f"{which}:{zid}: decode/re-encode raised {e!r}", case, repr(e)); continue
        o = out.getvalue()
        if o == rest:
            continue
        k = next((i for i in range(min(len(o), len(rest))) if o[i] != rest[i]), min(len(o), len(rest)))
        field = "?"
        try:
            for kind, a, b in traced_spans(rest, pool):
                if a <= k < b:
                    field = kind; break
        except Exception:  # noqa: BLE001
            pass
        ctx.V(f"C14:reencode-differs@{field.split(':')[0]}", f"{which}:{zid}: re-encoded field bytes differ from the file at offset {k} (field {field}): wrote {o[max(0, k - 2):k + 6].hex()} (total {len(o)} bytes), file has {rest[max(0, k - 2):k + 6].hex()} ({len(rest)} bytes)",
              case, o[max(0, k - 2):k + 6].hex(), rest[max(0, k - 2):k + 6].hex())
    ctx.sample({"kind": "reencode", "file": which, "rule_based_zones": ctx.counters["zones_reencoded"]})


def run(ctx, shard):
    for k in REQUIRED["any"]:
        ctx.counters.setdefault(k, 0)
    part = shard["part"]
    try:
        codec()
    except Exception as e:  # noqa: BLE001
        ctx.inconc(f"codec classes unavailable: {e!r}"); return
    if part == "prims": run_prims(ctx)
    elif part == "transitions": run_transitions(ctx, shard["n"])
    elif part == "composites": run_composites(ctx)
    elif part == "reencode": run_reencode(ctx, shard["file"])
    elif part == "millis_all":
        for v in range(shard["lo"], shard["hi"] + 1):
            check_millis(ctx, v)
        n = shard["hi"] - shard["lo"] + 1
        ctx.evaluations += n; ctx.counters["millis"] += n
        ctx.sample({"kind": "millis_range", "lo": shard["lo"], "hi": shard["hi"]})


def replay(ctx, case):
    ctx.distinct(2)
    for k in REQUIRED["any"]:
        ctx.counters.setdefault(k, 0)
    k = case.get("kind")
    if k == "millis": check_millis(ctx, case["v"]); ctx.ev()
    elif k == "reencode": run_reencode(ctx, case["file"])
    elif "part" in ctx.shard: run(ctx, ctx.shard)
    elif k == "transition": run_transitions(ctx, 20000)
    elif k in ("yearoffset", "recurrence", "altmap", "precalc", "fixed"): run_composites(ctx)
    else: run_prims(ctx)
