"""C01 — calendar <-> day-number bijection, order, derived fields, eras, rejection (DESIGN §3 C01)."""
from __future__ import annotations

LEVEL = "exploration"
RULE = ("quick: every year start +-3 days of every year, month starts +-1 for a quarter of the years, range ends +-400 (continuous), seeded stride "
        "sample; thorough: EVERY day of every calendar plus every (y, m in 0..months+1, d in 0..days+1) triple; each (calendar, day) pair and "
        "each triple is visited once per shard plan, so distinct = number of pairs/triples at a year/month/range boundary (counted), "
        "plus all others for the exhaustive walk")
ASSUMPTIONS = ["range [min_day, max_day] derived from the public min_year/max_year, months-in-year, days-in-month and constructor", "ISO weekday of day number d is (d+3) mod 7 + 1",
               "internal LocalDate._ctor(days_since_epoch=) used as accelerator and cross-checked against the public plus_days/with_calendar route"]
MIN_NT = {"quick": 5000, "thorough": 100000}
REQUIRED = {"any": ["walk_days", "ctor_roundtrips", "rejections", "era_checks", "cross_calendar", "public_route_crosschecks", "triples"]}
EXHAUSTIVE = {"thorough": True}


def shards(tier, seed):
    from pyoda_time import CalendarSystem
    from vf import gen
    out = []
    for cid in CalendarSystem.ids:
        cal = gen.cal_by_id(cid)
        lo, hi = gen.cal_range(cid)
        out.append({"name": f"edges:{cid}", "mode": "edges", "cal": cid})
        if tier == "quick":
            ny = cal.max_year - cal.min_year + 1
            k = max(1, ny // 2500)
            step = (ny + k - 1) // k
            for i in range(k):
                out.append({"name": f"windows:{cid}:{i}", "mode": "windows", "cal": cid, "ylo": cal.min_year + i * step, "yhi": min(cal.max_year, cal.min_year + (i + 1) * step - 1)})
        else:
            step = 220000
            i = 0
            a = lo
            while a <= hi:
                b = min(hi, a + step - 1)
                out.append({"name": f"walk:{cid}:{i}", "mode": "walk", "cal": cid, "lo": a, "hi": b}); a = b + 1; i += 1
            ny = cal.max_year - cal.min_year + 1
            k = max(1, ny // 700); stepy = (ny + k - 1) // k
            for j in range(k):
                out.append({"name": f"triples:{cid}:{j}", "mode": "triples", "cal": cid, "ylo": cal.min_year + j * stepy, "yhi": min(cal.max_year, cal.min_year + (j + 1) * stepy - 1)})
    out.append({"name": "factory-spellings", "mode": "factories", "n": 4 if tier == "quick" else 24})
    out.append({"name": "cross-calendar", "mode": "cross", "n": 300 if tier == "quick" else 6000})
    return out


class Walker:
    def __init__(self, ctx, cid):
        from vf import gen
        self.ctx = ctx; self.cid = cid; self.gen = gen
        self.cal = gen.cal_by_id(cid)
        self.lo, self.hi = gen.cal_range(cid)
        self.miy = {}; self.dim = {}; self.diy = {}
        self.n = 0
        self.eras = None
        try:
            self.eras = list(self.cal.eras())
        except Exception as e:  # noqa: BLE001
            ctx.exc(e)
            ctx.V(f"C01:eras-list-raised:{self._family()}", f"CalendarSystem.eras of {cid} raised {e!r}", {"kind": "eras", "cal": cid}, repr(e))

    def _family(self):
        return "single-era" if self.cid not in ("ISO", "Gregorian", "Julian") else "gj"

    def V(self, mon, what, d, obs=None, exp=None):
        self.ctx.V(f"C01:{mon}:{self.cid}", f"{self.cid} day {d}: {what}", {"kind": "day", "cal": self.cid, "d": d}, obs, exp)

    def months_in_year(self, y):
        v = self.miy.get(y)
        if v is None:
            v = self.miy[y] = self.cal.get_months_in_year(y)
        return v

    def days_in_month(self, y, m):
        v = self.dim.get((y, m))
        if v is None:
            v = self.dim[(y, m)] = self.cal.get_days_in_month(y, m)
        return v

    def days_in_year(self, y):
        v = self.diy.get(y)
        if v is None:
            v = self.diy[y] = self.cal.get_days_in_year(y)
        return v

    def segment(self, a, b, every_ctor=1, every_cross=1009, edge_checks=True, every_public=97):
        """Continuous walk over day numbers a..b (inclusive, inside the range)."""
        from pyoda_time import LocalDate, Period
        gen = self.gen; cal = self.cal; ctx = self.ctx; cid = self.cid
        date_of = gen.date_of
        prev = None; pk = None
        year_first = {}       # year -> (first day observed, day_of_year observed there)
        month_sum = {}
        others = [c for c in gen.calendars() if c is not cal]
        n0 = self.n
        for d in range(a, b + 1):
            try:
                x = date_of(d, cal)
                y, m, dd = x.year, x.month, x.day
                back = x._days_since_epoch if hasattr(x, "_days_since_epoch") else gen.day_public(x)
            except Exception as e:  # noqa: BLE001
                ctx.exc(e); self.V("day-to-date-raised", f"converting an in-range day raised {e!r}", d, repr(e)); prev = None; continue
            self.n += 1; n = self.n
            edge = edge_checks and (d - a < 2 or b - d < 2)
            if back != d:
                self.V("roundtrip", f"day -> {y}-{m}-{dd} -> day {back}", d, back, d)
            # (3) field ranges
            miy = self.months_in_year(y)
            if not 1 <= m <= miy:
                self.V("month-range", f"month {m} outside 1..{miy} for year {y}", d, m, miy)
            else:
                dim = self.days_in_month(y, m)
                if not 1 <= dd <= dim:
                    self.V("day-range", f"day {dd} outside 1..{dim} for {y}-{m}", d, dd, dim)
            dow = x.day_of_week.value
            if dow != (d + 3) % 7 + 1:
                self.V("day-of-week", f"day_of_week {dow}, expected {(d + 3) % 7 + 1}", d, dow)
            doy = x.day_of_year
            if prev is not None:
                py, pm, pdd, pdoy, px = pk
                # (2) strict order under the calendar's own ordering
                if not (px < x) or x.compare_to(px) <= 0:
                    self.V("order", f"{px!r} (day {d - 1}) is not < {x!r}", d)
                if y == py:
                    if doy != pdoy + 1:
                        self.V("day-of-year", f"day_of_year {doy} after {pdoy} within year {y}", d, doy, pdoy + 1)
                    if (m, dd) != (pm, pdd + 1) and not (dd == 1 and pdd == self.days_in_month(py, pm)):
                        self.V("month-succession", f"{py}-{pm}-{pdd} is followed by {y}-{m}-{dd}", d)
                else:
                    if y != py + 1:
                        self.V("year-succession", f"year {py} followed by {y}", d)
                    if doy != 1:
                        self.V("day-of-year", f"first day of year {y} has day_of_year {doy}", d, doy, 1)
                    if pdoy != self.days_in_year(py):
                        self.V("year-length", f"last day of year {py} has day_of_year {pdoy} but get_days_in_year = {self.days_in_year(py)}", d, pdoy, self.days_in_year(py))
                    if py in year_first and year_first[py][1] == 1:
                        dist = d - year_first[py][0]
                        if dist != self.days_in_year(py):
                            self.V("year-length", f"year {py} spans {dist} days between successive year starts but get_days_in_year = {self.days_in_year(py)}", d, dist, self.days_in_year(py))
                        s = sum(self.days_in_month(py, mm) for mm in range(1, self.months_in_year(py) + 1))
                        if s != dist:
                            self.V("month-lengths-sum", f"month lengths of year {py} sum to {s}, year spans {dist} days", d, s, dist)
                    ctx.nt_extra += 1
                if (m != pm or y != py):
                    ctx.nt_extra += 1
            if y not in year_first:
                year_first[y] = (d, doy)
            # constructor round trip, eras
            if n % every_ctor == 0 or dd == 1 or edge:
                ctx.counters["ctor_roundtrips"] += 1
                try:
                    z = LocalDate(y, m, dd, cal)
                    if z != x or gen.day_of(z) != d or hash(z) != hash(x):
                        self.V("constructor-roundtrip", f"LocalDate({y},{m},{dd}) is day {gen.day_of(z)}", d, gen.day_of(z), d)
                except Exception as e:  # noqa: BLE001
                    ctx.exc(e); self.V("constructor-rejects-own-date", f"LocalDate({y},{m},{dd}) raised {e!r}", d, repr(e))
                if self.eras is not None and (n % 16 == 0 or edge):
                    ctx.counters["era_checks"] += 1
                    try:
                        era = x.era; yoe = x.year_of_era
                        if era not in self.eras:
                            self.V("era-not-listed", f"era {era!r} not in eras {self.eras!r}", d)
                        if cal.get_absolute_year(yoe, era) != y:
                            self.V("era-year", f"absolute_year({yoe}, {era!r}) = {cal.get_absolute_year(yoe, era)} != {y}", d)
                        if not cal.get_min_year_of_era(era) <= yoe <= cal.get_max_year_of_era(era):
                            self.V("era-bracket", f"year_of_era {yoe} outside [{cal.get_min_year_of_era(era)}, {cal.get_max_year_of_era(era)}]", d)
                    except Exception as e:  # noqa: BLE001
                        ctx.exc(e); self.V(f"era-raised:{type(e).__name__}", f"era accessors raised {e!r}", d, repr(e))
            if n % every_public == 0 or edge:
                ctx.counters["public_route_crosschecks"] += 1
                try:
                    p = gen.date_public(d, cal)
                    if p != x or gen.ymd(p) != (y, m, dd) or gen.day_public(p) != d:
                        self.V("public-route", f"public route gives {p!r} / day {gen.day_public(p)}, accelerator gives {x!r}", d)
                    if prev is not None and (pk[4].plus_days(1) != x or Period.days_between(pk[4], x) != 1):
                        self.V("plus-one-day", f"{pk[4]!r}.plus_days(1) != {x!r}", d)
                except Exception as e:  # noqa: BLE001
                    ctx.exc(e); self.V(f"public-route-raised:{type(e).__name__}", f"public route raised {e!r}", d, repr(e))
            if n % every_cross == 0:
                for o in others:
                    olo, ohi = gen.cal_range(o.id)
                    if olo <= d <= ohi:
                        ctx.counters["cross_calendar"] += 1
                        try:
                            t = x.with_calendar(o)
                            if gen.day_of(t) != d or t.with_calendar(cal) != x:
                                ctx.V(f"C01:cross-calendar:{'<->'.join(sorted((cid, o.id)))}", f"{cid} day {d}: with_calendar({o.id}) and back is not the identity (via {t!r}, day {gen.day_of(t)})", {"kind": "day", "cal": cid, "d": d, "other": o.id})
                        except Exception as e:  # noqa: BLE001
                            ctx.exc(e); self.V(f"cross-calendar-raised:{type(e).__name__}", f"with_calendar({o.id}) raised {e!r}", d, repr(e))
            prev = x; pk = (y, m, dd, doy, x)
        n = self.n - n0
        ctx.evaluations += n; ctx.counters["walk_days"] += n
        return n


def must_reject(ctx, cid, what, fn, case):
    ctx.ev(); ctx.count("rejections")
    try:
        r = fn()
    except Exception as e:  # noqa: BLE001   (the property says "rejected", not with which error)
        ctx.exc(e); return
    ctx.V(f"C01:out-of-range-accepted:{what}:{cid}", f"{cid}: {what} {case} returned {r!r} instead of being rejected", dict(case, kind="reject", cal=cid, what=what), repr(r))


def run_edges(ctx, cid):
    from pyoda_time import LocalDate
    from vf import gen
    W = Walker(ctx, cid); cal = W.cal; lo, hi = W.lo, W.hi
    W.segment(lo, min(hi, lo + 400)); W.segment(max(lo, hi - 400), hi)
    ctx.distinct(2 * 401)
    if lo < -450 and hi > 450:
        W.segment(-400, 400, every_cross=37)      # around day 0 of the shared day-number line: sign branches of the day arithmetic
        ctx.distinct(801)
    # advertised-range coherence with the internal bounds when they exist
    imin, imax = getattr(cal, "_min_days", None), getattr(cal, "_max_days", None)
    ctx.ev()
    if isinstance(imin, int) and isinstance(imax, int) and (imin, imax) != (lo, hi):
        ctx.V(f"C01:advertised-range:{cid}", f"{cid}: days accepted internally [{imin}, {imax}] differ from the range spanned by the first day of min_year and the last day of max_year [{lo}, {hi}]",
              {"kind": "range", "cal": cid}, (imin, imax), (lo, hi))
    for k in list(range(1, 41)) + [100, 400]:
        must_reject(ctx, cid, "day-below-min", lambda k=k: gen.date_public(lo - k, cal), {"d": lo - k})
        must_reject(ctx, cid, "day-above-max", lambda k=k: gen.date_public(hi + k, cal), {"d": hi + k})
        if gen._ACCEL_CTOR is not None:
            must_reject(ctx, cid, "day-below-min-internal", lambda k=k: gen.date_of(lo - k, cal).year, {"d": lo - k})
            must_reject(ctx, cid, "day-above-max-internal", lambda k=k: gen.date_of(hi + k, cal).year, {"d": hi + k})
    rng = ctx.rng
    years = [cal.min_year, cal.max_year] + [rng.randint(cal.min_year, cal.max_year) for _ in range(20)]
    for y in years:
        miy = cal.get_months_in_year(y)
        for m, d in ((0, 1), (miy + 1, 1), (-1, 1)):
            must_reject(ctx, cid, "month-out-of-range", lambda m=m, d=d: LocalDate(y, m, d, cal), {"ymd": [y, m, d]})
        for m in range(1, miy + 1):
            dim = cal.get_days_in_month(y, m)
            for d in (0, dim + 1, -1, 32):
                if d <= dim and d >= 1: continue
                must_reject(ctx, cid, "day-out-of-range", lambda m=m, d=d: LocalDate(y, m, d, cal), {"ymd": [y, m, d]})
    for y in (cal.min_year - 1, cal.max_year + 1, cal.min_year - 2, cal.max_year + 2):
        must_reject(ctx, cid, "year-out-of-range", lambda y=y: LocalDate(y, 1, 1, cal), {"ymd": [y, 1, 1]})
        must_reject(ctx, cid, "year-out-of-range", lambda y=y: LocalDate(y, cal.get_months_in_year(cal.max_year), 1, cal), {"ymd": [y, "last-month", 1]})
    # eras: every listed era converts year-of-era bounds back
    if W.eras is not None:
        for era in W.eras:
            ctx.ev(); ctx.count("era_checks")
            try:
                a, b = cal.get_min_year_of_era(era), cal.get_max_year_of_era(era)
                for yoe in (a, b, (a + b) // 2):
                    ay = cal.get_absolute_year(yoe, era)
                    x = LocalDate(ay, 1, 1, cal) if cal.min_year <= ay <= cal.max_year else None
                    if x is not None and (x.era != era or x.year_of_era != yoe):
                        ctx.V(f"C01:era-year:{cid}", f"{cid}: absolute year {ay} of ({yoe}, {era!r}) reports ({x.year_of_era}, {x.era!r})", {"kind": "era", "cal": cid})
                # the era constructor: LocalDate(year_of_era, m, d, calendar, era) is the date of the absolute year - accepted exactly when that date exists
                for yoe in {a, b, a + 1, a + 3, a + 4, (a + b) // 2, rng.randint(a, b), rng.randint(a, min(b, a + 12))}:
                    if not a <= yoe <= b: continue
                    ay = cal.get_absolute_year(yoe, era)
                    if not cal.min_year <= ay <= cal.max_year: continue
                    for m_ in {1, 2, cal.get_months_in_year(ay)}:
                        dim_ = cal.get_days_in_month(ay, m_)
                        for d_ in (1, dim_, dim_ + 1, 29, 30):
                            ctx.ev(); ctx.count("era_checks"); ctx.key((cid, "era-ctor", getattr(era, "name", "?"), d_ <= dim_))
                            try:
                                x = LocalDate(yoe, m_, d_, cal, era)
                            except ValueError as e:
                                ctx.exc(e)
                                if d_ <= dim_:
                                    ctx.V(f"C01:era-ctor-rejected:{cid}", f"{cid}: LocalDate({yoe}, {m_}, {d_}, era={getattr(era, 'name', era)}) raised {e!r}; absolute year {ay} has {dim_} days in month {m_}", {"kind": "era", "cal": cid})
                                continue
                            if d_ > dim_:
                                ctx.V(f"C01:era-ctor-accepted-invalid:{cid}", f"{cid}: LocalDate({yoe}, {m_}, {d_}, era={getattr(era, 'name', era)}) was accepted as {gen.ymd(x)}; absolute year {ay} has only {dim_} days in month {m_}", {"kind": "era", "cal": cid})
                            elif gen.ymd(x) != (ay, m_, d_) or x != LocalDate(ay, m_, d_, cal):
                                ctx.V(f"C01:era-ctor-value:{cid}", f"{cid}: LocalDate({yoe}, {m_}, {d_}, era={getattr(era, 'name', era)}) = {gen.ymd(x)}, expected {(ay, m_, d_)}", {"kind": "era", "cal": cid})
                must_reject(ctx, cid, "year-of-era-out-of-range", lambda: cal.get_absolute_year(b + 1, era), {"yoe": b + 1})
                must_reject(ctx, cid, "year-of-era-out-of-range", lambda: cal.get_absolute_year(a - 1, era), {"yoe": a - 1})
            except Exception as e:  # noqa: BLE001
                ctx.exc(e); ctx.V(f"C01:era-raised:{type(e).__name__}:{cid}", f"{cid}: era bounds raised {e!r}", {"kind": "era", "cal": cid}, repr(e))
    for y in sorted({cal.min_year, cal.max_year, cal.min_year + 1, rng.randint(cal.min_year, cal.max_year), rng.randint(cal.min_year, cal.max_year)}):
        run_triples(ctx, cid, y, y)
    ctx.sample({"kind": "day", "cal": cid, "d": lo})


def run_windows(ctx, cid, ylo, yhi):
    from pyoda_time import LocalDate
    from vf import gen
    W = Walker(ctx, cid); cal = W.cal; lo, hi = W.lo, W.hi
    rng = ctx.rng
    ph = ctx.seed % 4
    for y in range(ylo, yhi + 1):
        try:
            fm = 7 if cid == "Hebrew Scriptural" else 1
            s = gen.day_of(LocalDate(y, fm, 1, cal))
        except Exception as e:  # noqa: BLE001
            ctx.exc(e); ctx.V(f"C01:year-start-raised:{cid}", f"{cid}: LocalDate({y},{fm},1) raised {e!r}", {"kind": "ys", "cal": cid, "y": y}, repr(e)); continue
        W.segment(max(lo, s - 3), min(hi, s + 3), every_cross=211, edge_checks=False, every_public=53)
        ctx.nt_extra += 5
        if y % 4 == ph:
            for m in range(1, cal.get_months_in_year(y) + 1):
                try:
                    ms = gen.day_of(LocalDate(y, m, 1, cal))
                except Exception as e:  # noqa: BLE001
                    ctx.exc(e); continue
                if abs(ms - s) > 3:
                    W.segment(max(lo, ms - 1), min(hi, ms + 1), every_cross=211, edge_checks=False, every_public=53); ctx.nt_extra += 1
    # seeded stride sample inside the shard's years
    a = gen.day_of(LocalDate(ylo, 7 if cid == "Hebrew Scriptural" else 1, 1, cal)); b = min(hi, a + (yhi - ylo + 1) * 366)
    for _ in range(300):
        d = rng.randint(a, min(b, hi) - 3)
        W.segment(d, d + 2, every_cross=3, edge_checks=False, every_public=5)
    ctx.sample({"kind": "day", "cal": cid, "d": a}); ctx.counters.setdefault("triples", 0); ctx.counters.setdefault("rejections", 0)


def run_triples(ctx, cid, ylo, yhi):
    """Reverse enumeration: every (y, m in 0..months+1, d in 0..days+1): accepted exactly inside the tables; accepted
    triples of a year are as many as the year has days, map to distinct in-range days and convert back to themselves."""
    from pyoda_time import LocalDate
    from vf import gen
    cal = gen.cal_by_id(cid); lo, hi = gen.cal_range(cid)
    for y in range(ylo, yhi + 1):
        miy = cal.get_months_in_year(y)
        seen = set(); acc = 0
        for m in range(0, miy + 2):
            dim = cal.get_days_in_month(y, m) if 1 <= m <= miy else 31
            for d in range(0, dim + 2):
                ctx.counters["triples"] += 1
                valid = 1 <= m <= miy and 1 <= d <= dim
                try:
                    x = LocalDate(y, m, d, cal)
                except Exception as e:  # noqa: BLE001
                    if valid:
                        ctx.exc(e); ctx.V(f"C01:triple-rejected:{cid}", f"{cid}: valid triple ({y},{m},{d}) raised {e!r}", {"kind": "triple", "cal": cid, "ymd": [y, m, d]}, repr(e))
                    continue
                if not valid:
                    ctx.V(f"C01:out-of-range-accepted:triple:{cid}", f"{cid}: triple ({y},{m},{d}) outside the tables (months {miy}, days {dim}) was accepted as {x!r}", {"kind": "triple", "cal": cid, "ymd": [y, m, d]}, repr(x)); continue
                n = gen.day_of(x); acc += 1
                if not lo <= n <= hi:
                    ctx.V(f"C01:triple-day-out-of-range:{cid}", f"{cid}: ({y},{m},{d}) is day {n} outside [{lo},{hi}]", {"kind": "triple", "cal": cid, "ymd": [y, m, d]}, n)
                elif gen.ymd(gen.date_of(n, cal)) != (y, m, d):
                    ctx.V(f"C01:triple-roundtrip:{cid}", f"{cid}: ({y},{m},{d}) -> day {n} -> {gen.ymd(gen.date_of(n, cal))}", {"kind": "triple", "cal": cid, "ymd": [y, m, d]})
                if n in seen:
                    ctx.V(f"C01:triple-not-injective:{cid}", f"{cid}: two triples of year {y} map to day {n}", {"kind": "triple", "cal": cid, "ymd": [y, m, d]}, n)
                seen.add(n)
        ctx.ev(acc); ctx.distinct(acc)
        if acc != cal.get_days_in_year(y) or (seen and max(seen) - min(seen) + 1 != acc):
            ctx.V(f"C01:triple-count:{cid}", f"{cid}: year {y} accepts {acc} triples covering days {min(seen) if seen else None}..{max(seen) if seen else None}; get_days_in_year = {cal.get_days_in_year(y)}",
                  {"kind": "year", "cal": cid, "y": y}, acc, cal.get_days_in_year(y))
    for k in ("walk_days", "ctor_roundtrips", "rejections", "era_checks", "cross_calendar", "public_route_crosschecks"):
        ctx.counters.setdefault(k, 0)
    ctx.sample({"kind": "triple", "cal": cid, "ymd": [ylo, 1, 1]})


def run_cross(ctx, n):
    """The same (year, month, day) numbers through several calendars back to back in one process (the two Hebrew numberings, which share a
    calculator class, always among them): day number, day of year and the way back are what each calendar answers when asked on its own."""
    from pyoda_time import LocalDate
    from vf import gen
    rng = ctx.rng
    cals = gen.calendars()
    heb = [c for c in cals if c.id.startswith("Hebrew")]
    def facts(cal, y, m, d):
        try:
            x = LocalDate(y, m, d, cal)
            dn = gen.day_public(x)
            back = gen.ymd(LocalDate(1970, 1, 1).plus_days(dn).with_calendar(cal)) if False else gen.ymd(gen.date_of(dn, cal))
            return (dn, x.day_of_year, back, x.day_of_week.value)
        except Exception as e:  # noqa: BLE001
            return ("raised", type(e).__name__)
    for _ in range(n):
        y = rng.choice([5400, 5784, 1400, 2024, rng.randint(2, 9000)]); m = rng.randint(1, 13); d = rng.choice([1, 15, 29, 30, rng.randint(1, 30)])
        order = heb + rng.sample([c for c in cals if c not in heb], 4)
        rng.shuffle(order)
        alone = {}
        for cal in order:      # each calendar on its own: a neutral question in another year first, so that whatever is remembered is its own
            facts(cal, max(cal.min_year + 1, min(cal.max_year - 1, y + 7)), 1, 1)
            alone[cal.id] = facts(cal, y, m, d)
        for rounds in range(2):
            for cal in order:
                got = facts(cal, y, m, d)
                ctx.ev(); ctx.count("cross_calendar"); ctx.key(("cross-same-numbers", cal.id))
                if got != alone[cal.id]:
                    ctx.V(f"C01:cross-calendar-same-numbers:{cal.id.split()[0]}", f"{cal.id} {y}-{m}-{d}: (day number, day of year, way back, weekday) = {got} right after another calendar was asked about the same numbers; on its own it answers {alone[cal.id]}",
                          {"kind": "cross", "cal": cal.id, "ymd": [y, m, d]}, got, alone[cal.id])
    ctx.sample({"kind": "cross", "n": n})


def run(ctx, shard):
    for k in REQUIRED["any"]:
        ctx.counters.setdefault(k, 0)
    mode = shard["mode"]
    if mode == "factories":
        import json as _json
        import os
        import subprocess
        import sys
        for k in range(shard["n"]):
            sd = ctx.rng.randrange(10**9)
            try:
                r = subprocess.run([sys.executable, "-m", "vf.props.c01_child", str(sd)], capture_output=True, text=True, timeout=600, env=dict(os.environ),
                                   cwd=os.path.dirname(os.path.dirname(os.path.dirname(os.path.abspath(__file__)))))
                line = [ln for ln in r.stdout.splitlines() if ln.startswith("@@C01CHILD ")]
                res = _json.loads(line[-1][len("@@C01CHILD "):]) if line else None
            except subprocess.TimeoutExpired:
                res = None
            if res is None:
                ctx.inconc("factory-spelling child produced no result"); continue
            ctx.ev(res["calendars"] * 120); ctx.count("factory_children"); ctx.key(("factories", k)); ctx.distinct(res["calendars"])
            for pb in res["problems"][:5]:
                ctx.V(f"C01:factory-spelling:{pb[1]}", f"in a fresh interpreter whose first use of the calendar is CalendarSystem.get_{pb[0]} (plain numbers as arguments): {pb[1:]}", {"kind": "factories", "seed": sd}, pb)
        ctx.sample({"kind": "factories", "children": shard["n"]})
        return
    if mode == "cross":
        run_cross(ctx, shard["n"]); return
    cid = shard["cal"]
    if mode == "edges":
        run_edges(ctx, cid)
    elif mode == "windows":
        run_windows(ctx, cid, shard["ylo"], shard["yhi"])
    elif mode == "walk":
        W = Walker(ctx, cid)
        n = W.segment(shard["lo"], shard["hi"], every_ctor=1)
        ctx.distinct(max(0, n - ctx.nt_extra)) if False else None
        ctx.nt_extra = n  # exhaustive walk: every (calendar, day) pair is distinct
        ctx.sample({"kind": "day", "cal": cid, "d": shard["lo"]})
    else:
        run_triples(ctx, cid, shard["ylo"], shard["yhi"])


def replay(ctx, case):
    from pyoda_time import LocalDate
    from vf import gen
    ctx.distinct(2)
    for k in REQUIRED["any"]:
        ctx.counters.setdefault(k, 0)
    cid = case.get("cal")
    k = case.get("kind")
    if k == "day":
        lo, hi = gen.cal_range(cid)
        d = case["d"]
        Walker(ctx, cid).segment(max(lo, d - 2), min(hi, d + 2), every_cross=1)
    elif k == "triple":
        y = case["ymd"][0]
        run_triples(ctx, cid, y, y)
    elif k == "year":
        run_triples(ctx, cid, case["y"], case["y"])
    else:
        run_edges(ctx, cid)
