"""C09 — date arithmetic and Period.between laws in every calendar (DESIGN §3 C09)."""
from __future__ import annotations

LEVEL = "exploration"
RULE = ("per calendar: start dates at range ends, month ends, leap days and seeded; amounts {0,+-1,+-299..301 (fast-path threshold),year/leap-cycle lengths, "
        "range width, seeded}; plus_months judged against the calendar's month sequence (built by walking month starts), plus_years against the regular "
        "rule / the documented Hebrew rule; Period.between for LocalDate/LocalDateTime/LocalTime/YearMonth with every singleton unit set, the documented "
        "combinations and seeded subsets of the 2^10; distinct key = (calendar, operation, boundary class crossed, unit-set, direction)")
ASSUMPTIONS = ["day-number line and month sequence obtained from the C01 mapping (no addition code involved)", "Hebrew year arithmetic as documented on the calendar (Adar/Adar II mapping, day-30 roll-over)",
               "Badi: dates inside Ayyam-i-Ha (month 18, day > 19) only required to give valid results for month arithmetic (documented pseudo-month)"]
MIN_NT = {"quick": 1500, "thorough": 5000}
REQUIRED = {"any": ["plus_days", "plus_months", "plus_years", "between_date", "between_datetime", "between_time", "between_yearmonth", "normalize"]}

DAY = 86400 * 10**9
NAMES = ["years", "months", "weeks", "days", "hours", "minutes", "seconds", "milliseconds", "ticks", "nanoseconds"]
FIX = [None, None, 7 * DAY, DAY, 3600 * 10**9, 60 * 10**9, 10**9, 10**6, 100, 1]


def shards(tier, seed):
    from pyoda_time import CalendarSystem
    n = 140 if tier == "quick" else 2500
    out = [{"name": f"cal:{cid}", "part": "cal", "cal": cid, "n": n} for cid in CalendarSystem.ids]
    out += [{"name": f"misc:{i}", "part": "misc", "n": 2500 if tier == "quick" else 40000} for i in range(2 if tier == "quick" else 8)]
    out += [{"name": f"cross-calendar:{i}", "part": "cross", "n": 150 if tier == "quick" else 3000} for i in range(1 if tier == "quick" else 4)]
    return out


def units_list():
    from pyoda_time import PeriodUnits as U
    return [U.YEARS, U.MONTHS, U.WEEKS, U.DAYS, U.HOURS, U.MINUTES, U.SECONDS, U.MILLISECONDS, U.TICKS, U.NANOSECONDS]


def comps(p):
    return [getattr(p, n) for n in NAMES]


def total_ns(p):
    return sum(c * f for c, f in zip(comps(p), FIX) if f)


def mask_units(mask):
    from pyoda_time import PeriodUnits
    u = PeriodUnits.NONE
    for i, x in enumerate(units_list()):
        if mask >> i & 1:
            u |= x
    return u


class CalCtx:
    def __init__(self, ctx, cid):
        from vf import gen
        from vf.models import calendars_ref as R
        self.ctx = ctx; self.cid = cid; self.gen = gen
        self.cal = gen.cal_by_id(cid)
        self.lo, self.hi = gen.cal_range(cid)
        self.seq = []  # (start_day, y, m, dim) in day order
        d = self.lo
        cal = self.cal
        while d <= self.hi:
            x = gen.date_of(d, cal)
            dim = cal.get_days_in_month(x.year, x.month)
            if x.day != 1:
                ctx.V(f"C09:month-walk:{cid}", f"{cid}: day {d} expected to be a month start but is {gen.ymd(x)}", {"kind": "walk", "cal": cid, "d": d}); d += 1; continue
            self.seq.append((d, x.year, x.month, dim)); d += dim
        self.idx = {(y, m): i for i, (s, y, m, dim) in enumerate(self.seq)}
        self.hebC = R.Hebrew(True); self.hebS = R.Hebrew(False)

    def valid(self, r):
        from pyoda_time import LocalDate
        gen = self.gen
        try:
            z = LocalDate(r.year, r.month, r.day, self.cal)
            n = gen.day_of(r)
            return z == r and self.lo <= n <= self.hi and gen.ymd(gen.date_of(n, self.cal)) == gen.ymd(r) and r.calendar is self.cal
        except Exception:  # noqa: BLE001
            return False

    def in_ayyamiha(self, x):
        return self.cid == "Badi" and x.month == 18 and x.day > 19

    def hebrew_expected(self, x, y2):
        """Documented Hebrew rule for changing the year (independent implementation on scriptural month numbers)."""
        R = self
        y1 = x.year
        civil = self.cid == "Hebrew Civil"
        order_this = (self.hebC if civil else self.hebS).month_order(y1)
        sm = self.hebS.month_order(y1)[order_this.index(x.month)]
        day = x.day
        from vf.models.calendars_ref import heb_leap
        if sm == 13 and not heb_leap(y2):
            sm = 12
        elif sm == 12 and heb_leap(y2) and not heb_leap(y1):
            sm = 13
        if day == 30 and sm in (8, 9, 12) and self.hebS.days_in_month(y2, sm) != 30:
            day = 1; sm += 1
            if sm == 13: sm = 1
        order_t_s = self.hebS.month_order(y2); order_t = (self.hebC if civil else self.hebS).month_order(y2)
        return (y2, order_t[order_t_s.index(sm)], day)


def run_cal(ctx, cid, n_iter):
    from pyoda_time import LocalDate, LocalTime, Period, PeriodBuilder, PeriodUnits, YearMonth
    from vf import gen
    from vf.ctx import exc_key
    rng = ctx.rng
    C = CalCtx(ctx, cid); cal = C.cal; lo, hi = C.lo, C.hi
    UN = units_list()
    RAISES = (OverflowError, ValueError, KeyError, IndexError, ArithmeticError)
    month_ends = [s + dim - 1 for (s, y, m, dim) in rng.sample(C.seq, min(len(C.seq), n_iter // 3))]
    starts = [lo, lo + 1, hi, hi - 1] + month_ends + [rng.randint(lo, hi) for _ in range(n_iter)]
    ylen = [354, 355, 365, 366, 383, 384, 385, 353]
    # year-boundary starts with amounts around every year length (day-of-year fast paths, short years)
    ystarts = sorted({s for (s, y, m, dim) in C.seq if gen.date_of(s, cal).day_of_year == 1})
    for s0 in rng.sample(ystarts, min(len(ystarts), 150 if ctx.tier == "quick" else 1500)):
        for a in (s0, s0 - 1):
            if not lo <= a <= hi: continue
            x = gen.date_of(a, cal)
            for n in [sg * (L + dl) for L in ylen for dl in (-1, 0, 1) for sg in (1, -1)]:
                t = a + n
                if not lo <= t <= hi: continue
                ctx.ev(); ctx.count("plus_days"); ctx.key((cid, "year-boundary-days", n))
                case = {"kind": "plus_days", "cal": cid, "d": a, "n": n}
                try:
                    r = x.plus_days(n)
                except Exception as e:  # noqa: BLE001
                    ctx.exc(e); ctx.V(f"C09:plus_days-raised-in-range:{cid}", f"{cid} {gen.ymd(x)} (day {a}).plus_days({n}) raised {e!r}; target day {t} is in range", case, repr(e)); continue
                if gen.day_of(r) != t or not C.valid(r):
                    ctx.V(f"C09:plus_days:{cid}", f"{cid} {gen.ymd(x)} (day {a}).plus_days({n}) = {gen.ymd(r)} (day {gen.day_of(r)}), expected day {t}", case, gen.day_of(r), t)
    for a in starts:
        x = gen.date_of(a, cal)
        ymd = gen.ymd(x)
        # ---- days / weeks
        for n in (0, 1, -1, 299, 300, 301, -299, -300, -301, rng.choice(ylen), -rng.choice(ylen), 1461, -10631, rng.randint(-5000, 5000), rng.randint(-10**6, 10**6), hi - a, lo - a, hi - a + 1, lo - a - 1):
            t = a + n; inr = lo <= t <= hi
            case = {"kind": "plus_days", "cal": cid, "d": a, "n": n}
            ctx.ev(); ctx.count("plus_days"); ctx.key((cid, "days", abs(n) >= 300, (n > 0) - (n < 0), inr, t in (lo, hi)))
            try:
                r = x.plus_days(n)
            except RAISES as e:
                ctx.exc(e)
                if inr: ctx.V(f"C09:plus_days-raised-in-range:{cid}", f"{cid} {ymd} (day {a}).plus_days({n}) raised {e!r}; target day {t} is in range", case, repr(e))
                continue
            except Exception as e:  # noqa: BLE001
                ctx.exc(e); ctx.V(f"C09:plus_days-unexpected:{exc_key(e)}", f"{cid} day {a} plus_days({n}) raised {e!r}", case, repr(e)); continue
            if not inr:
                ctx.V(f"C09:plus_days-out-of-range-returned:{cid}", f"{cid} day {a} plus_days({n}) returned {r!r}; target day {t} outside [{lo},{hi}]", case, repr(r)); continue
            if gen.day_of(r) != t or not C.valid(r):
                ctx.V(f"C09:plus_days:{cid}", f"{cid} {ymd} (day {a}).plus_days({n}) = {gen.ymd(r)} (day {gen.day_of(r)}), expected day {t}", case, gen.day_of(r), t)
        for n in (0, 1, -1, 43, -43, rng.randint(-100, 100), rng.randint(-10**5, 10**5)):
            t = a + 7 * n; inr = lo <= t <= hi
            case = {"kind": "plus_weeks", "cal": cid, "d": a, "n": n}
            ctx.ev(); ctx.count("plus_days")
            try:
                r = x.plus_weeks(n)
            except RAISES as e:
                ctx.exc(e)
                if inr: ctx.V(f"C09:plus_weeks-raised-in-range:{cid}", f"{cid} day {a} plus_weeks({n}) raised {e!r}", case, repr(e))
                continue
            if not inr: ctx.V(f"C09:plus_weeks-out-of-range-returned:{cid}", f"{cid} day {a} plus_weeks({n}) returned {r!r}", case, repr(r))
            elif gen.day_of(r) != t: ctx.V(f"C09:plus_weeks:{cid}", f"{cid} day {a} plus_weeks({n}) = day {gen.day_of(r)}, expected {t}", case, gen.day_of(r), t)
        # ---- months
        i = C.idx.get((x.year, x.month))
        if i is not None:
            miy = cal.get_months_in_year(x.year)
            for n in (0, 1, -1, 11, 12, 13, -12, -13, 18, 19, 20, 37, 38, -19, -38, 235, -235, miy - x.month, miy - x.month + 1, -x.month, -x.month + 1, rng.randint(-3000, 3000), len(C.seq) - 1 - i, -i, len(C.seq) - i, -i - 1):
                j = i + n; inr = 0 <= j < len(C.seq)
                case = {"kind": "plus_months", "cal": cid, "ymd": list(ymd), "n": n}
                ctx.ev(); ctx.count("plus_months"); ctx.key((cid, "months", (n > 0) - (n < 0), abs(n) >= miy, inr, C.in_ayyamiha(x), x.day >= 29))
                try:
                    r = x.plus_months(n)
                except RAISES as e:
                    ctx.exc(e)
                    if inr: ctx.V(f"C09:plus_months-raised-in-range:{cid}", f"{cid} {ymd}.plus_months({n}) raised {e!r}; target month {C.seq[j][1:3]} is inside the calendar", case, repr(e))
                    continue
                except Exception as e:  # noqa: BLE001
                    ctx.exc(e); ctx.V(f"C09:plus_months-unexpected:{exc_key(e)}", f"{cid} {ymd}.plus_months({n}) raised {e!r}", case, repr(e)); continue
                if not C.valid(r):
                    ctx.V(f"C09:plus_months-invalid-date:{cid}", f"{cid} {ymd}.plus_months({n}) returned the invalid date {gen.ymd(r)}", case, gen.ymd(r)); continue
                if C.in_ayyamiha(x):
                    continue  # documented pseudo-month: only validity is required
                if not inr:
                    ctx.V(f"C09:plus_months-out-of-range-returned:{cid}", f"{cid} {ymd}.plus_months({n}) returned {gen.ymd(r)} although the target month is outside the calendar", case, gen.ymd(r)); continue
                if (r.year, r.month) != (C.seq[j][1], C.seq[j][2]):
                    ctx.V(f"C09:plus_months-wrong-month:{cid}", f"{cid} {ymd}.plus_months({n}) = {gen.ymd(r)}; the month {n} months away is {C.seq[j][1:3]}", case, (r.year, r.month), C.seq[j][1:3]); continue
                if r.day != min(x.day, C.seq[j][3]):
                    ctx.V(f"C09:plus_months-day:{cid}", f"{cid} {ymd}.plus_months({n}) = {gen.ymd(r)}; day should be min({x.day}, {C.seq[j][3]})", case, r.day, min(x.day, C.seq[j][3]))
        # ---- years
        for n in (0, 1, -1, 4, 19, 30, 33, -4, -19, 400, rng.randint(-500, 500), cal.max_year - x.year, cal.min_year - x.year, cal.max_year - x.year + 1, cal.min_year - x.year - 1):
            y2 = x.year + n; inr = cal.min_year <= y2 <= cal.max_year
            case = {"kind": "plus_years", "cal": cid, "ymd": list(ymd), "n": n}
            ctx.ev(); ctx.count("plus_years"); ctx.key((cid, "years", (n > 0) - (n < 0), inr, x.day >= 29, x.month >= 12))
            try:
                r = x.plus_years(n)
            except RAISES as e:
                ctx.exc(e)
                if inr:
                    # the rule's target date may itself fall outside the range in the first/last year
                    ctx.V(f"C09:plus_years-raised-in-range:{cid}", f"{cid} {ymd}.plus_years({n}) raised {e!r}; year {y2} is inside the calendar", case, repr(e))
                continue
            except Exception as e:  # noqa: BLE001
                ctx.exc(e); ctx.V(f"C09:plus_years-unexpected:{exc_key(e)}", f"{cid} {ymd}.plus_years({n}) raised {e!r}", case, repr(e)); continue
            if not inr:
                ctx.V(f"C09:plus_years-out-of-range-returned:{cid}", f"{cid} {ymd}.plus_years({n}) returned {gen.ymd(r)}", case, gen.ymd(r)); continue
            if not C.valid(r) or r.year != y2:
                ctx.V(f"C09:plus_years-invalid-or-wrong-year:{cid}", f"{cid} {ymd}.plus_years({n}) = {gen.ymd(r)} (valid={C.valid(r)}), expected year {y2}", case, gen.ymd(r)); continue
            if cid.startswith("Hebrew"):
                exp = C.hebrew_expected(x, y2)
            elif cid == "Badi" and C.in_ayyamiha(x):
                exp = (y2, 18, min(x.day, cal.get_days_in_month(y2, 18)))
            else:
                exp = (y2, x.month, min(x.day, cal.get_days_in_month(y2, x.month)))
            if gen.ymd(r) != exp:
                ctx.V(f"C09:plus_years-rule:{cid}", f"{cid} {ymd}.plus_years({n}) = {gen.ymd(r)}; documented rule gives {exp}", case, gen.ymd(r), exp)
        # ---- Period.between on dates
        dist = rng.choice([0, 1, -1, 27, 28, 29, 30, 31, 32, -30, -31, 59, -59, 299, 300, 301, -300, 354, 355, 365, 366, -365, -366, 383, 384, 385, 730, 1461, -10631,
                           rng.randint(-5000, 5000), rng.randint(-400000, 400000), hi - a, lo - a])
        b = a + dist
        if lo <= b <= hi:
            e = gen.date_of(b, cal)
            masks = [1, 2, 4, 8, 3, 11, 15, 9, 10] + [rng.randint(1, 15) for _ in range(2)]
            for k in masks:
                between_date(ctx, C, x, e, a, b, k)
            # date-times
            ta = rng.choice([0, 1, DAY - 1, rng.randrange(DAY)]); tb = rng.choice([0, 1, DAY - 1, ta, rng.randrange(DAY)])
            s2 = x.at(LocalTime.from_nanoseconds_since_midnight(ta)); e2 = e.at(LocalTime.from_nanoseconds_since_midnight(tb))
            for k in [1 << i for i in range(10)] + [1023, 0b1111110000, 0b0000001111, 0b1000001000] + [rng.randint(1, 1023) for _ in range(4)]:
                between_datetime(ctx, C, s2, e2, a, ta, b, tb, k)
    # ---- YearMonth between
    for _ in range(max(30, n_iter // 3)):
        y1 = rng.randint(cal.min_year, cal.max_year); y2 = max(cal.min_year, min(cal.max_year, y1 + rng.choice([0, 1, -1, rng.randint(-30, 30)])))
        m1 = rng.randint(1, cal.get_months_in_year(y1)); m2 = rng.randint(1, cal.get_months_in_year(y2))
        A = YearMonth(year=y1, month=m1, calendar=cal); B = YearMonth(year=y2, month=m2, calendar=cal)
        ia, ib = C.idx.get((y1, m1)), C.idx.get((y2, m2))
        if ia is None or ib is None: continue
        # YearMonth.plus_months moves exactly n months along the calendar's own month sequence (Badi's Ayyam-i-Ha pseudo-month excepted, as for dates)
        if cid != "Badi":
            for n_ in (0, 1, -1, ib - ia, 3, -3, 12, -13, rng.randint(-40, 40)):
                j = ia + n_
                if not 0 <= j < len(C.seq): continue
                case = {"kind": "ym_plus_months", "cal": cid, "a": [y1, m1], "n": n_}
                ctx.ev(); ctx.count("yearmonth_plus_months"); ctx.key((cid, "ym-plus", (n_ > 0) - (n_ < 0), C.seq[j][1] != y1))
                try:
                    r_ = A.plus_months(n_)
                except Exception as e:  # noqa: BLE001
                    ctx.exc(e); ctx.V(f"C09:yearmonth-plus_months-raised:{exc_key(e)}", f"{cid} {A!r}.plus_months({n_}) raised {e!r}", case, repr(e)); continue
                if (r_.year, r_.month) != (C.seq[j][1], C.seq[j][2]) or r_.calendar is not cal:
                    ctx.V("C09:yearmonth-plus_months", f"{cid} YearMonth({y1},{m1}).plus_months({n_}) = ({r_.year},{r_.month}); {n_} months along the calendar is ({C.seq[j][1]},{C.seq[j][2]})", case, (r_.year, r_.month), (C.seq[j][1], C.seq[j][2]))
        for units in (PeriodUnits.YEARS, PeriodUnits.MONTHS, PeriodUnits.YEARS | PeriodUnits.MONTHS):
            case = {"kind": "between_ym", "cal": cid, "a": [y1, m1], "b": [y2, m2], "units": str(units)}
            ctx.ev(); ctx.count("between_yearmonth"); ctx.key((cid, "ym", str(units), (ib > ia) - (ib < ia)))
            try:
                p = Period.between(A, B, units)
            except Exception as e:  # noqa: BLE001
                ctx.exc(e); ctx.V(f"C09:between-yearmonth-raised:{exc_key(e)}", f"{cid} Period.between({A!r},{B!r},{units}) raised {e!r}", case, repr(e)); continue
            c = comps(p)
            if (not (units & PeriodUnits.YEARS) and p.years) or (not (units & PeriodUnits.MONTHS) and p.months) or any(c[2:]):
                ctx.V("C09:between-yearmonth-unrequested-unit", f"{cid} Period.between({A!r},{B!r},{units}) = {p!r} carries a component that was not requested", case, repr(p)); continue
            try:
                r = A.plus_months(0)
                r = LocalDate(y1, m1, 1, cal) + p
            except Exception as e:  # noqa: BLE001
                ctx.exc(e); continue
            ir = C.idx.get((r.year, r.month))
            if ir is None or not min(ia, ib) <= ir <= max(ia, ib):
                ctx.V("C09:between-yearmonth-outside", f"{cid} {A!r} + between(...,{units}) = {p!r} lands at {gen.ymd(r)} outside [start,end]", case, repr(p))
            if units & PeriodUnits.MONTHS and ir != ib and cid != "Badi":
                ctx.V("C09:between-yearmonth-not-end", f"{cid} {A!r} + {p!r} = {gen.ymd(r)}, expected month {(y2, m2)}", case, repr(p))
            if units == PeriodUnits.MONTHS and p.months != ib - ia and cid != "Badi":
                ctx.V("C09:between-yearmonth-months", f"{cid} Period.between({A!r},{B!r},MONTHS) = {p!r}; the months are {ib - ia} apart", case, p.months, ib - ia)
    ctx.sample({"kind": "plus_months", "cal": cid, "ymd": list(gen.ymd(gen.date_of(starts[5], cal))), "n": 13})
    for k in REQUIRED["any"]:
        ctx.counters.setdefault(k, 0)


def between_date(ctx, C, s, e, a, b, k):
    from pyoda_time import Period, PeriodBuilder, PeriodUnits
    from vf.ctx import exc_key
    gen = C.gen; cid = C.cid
    UN = units_list()[:4]
    units = mask_units(k)
    case = {"kind": "between_date", "cal": cid, "a": a, "b": b, "mask": k}
    ctx.ev(); ctx.count("between_date"); ctx.key((cid, "bd", k, (b > a) - (b < a), abs(b - a) >= 300))
    try:
        p = Period.between(s, e, units)
    except Exception as ex:  # noqa: BLE001
        ctx.exc(ex); ctx.V(f"C09:between-date-raised:{exc_key(ex)}", f"{cid} Period.between(day {a} {gen.ymd(s)}, day {b} {gen.ymd(e)}, {units}) raised {ex!r}", case, repr(ex)); return
    c = comps(p)
    for i in range(10):
        if not (k >> i & 1) and c[i] != 0:
            ctx.V("C09:between-date-unrequested-unit", f"{cid} between({gen.ymd(s)},{gen.ymd(e)},{units}) = {p!r} carries {NAMES[i]}", case, repr(p)); return
    if (a <= b and any(v < 0 for v in c)) or (a >= b and any(v > 0 for v in c)):
        ctx.V("C09:between-date-sign", f"{cid} between({gen.ymd(s)},{gen.ymd(e)},{units}) = {p!r}: components of mixed or wrong sign", case, repr(p))
    aya = C.in_ayyamiha(s) or C.in_ayyamiha(e)
    try:
        r = s + p
    except Exception as ex:  # noqa: BLE001
        ctx.exc(ex); ctx.V(f"C09:between-date-add-raised:{cid}", f"{cid} {gen.ymd(s)} + {p!r} raised {ex!r}", case, repr(ex)); return
    rd = gen.day_of(r)
    if not min(a, b) <= rd <= max(a, b) and not (aya and k & 3):
        ctx.V(f"C09:between-date-outside:{cid}", f"{cid} {gen.ymd(s)} + between(..,{gen.ymd(e)},{units}) = {p!r} lands on day {rd} outside [{min(a, b)},{max(a, b)}]", case, rd)
    if k & 8 and rd != b:
        ctx.V(f"C09:between-date-not-end:{cid}", f"{cid} {gen.ymd(s)} + {p!r} = {gen.ymd(r)} (day {rd}) != end {gen.ymd(e)} although DAYS was requested", case, rd, b)
    if k in (1, 2, 4, 8) and a != b and not (aya and k & 3):
        i = (1, 2, 4, 8).index(k); n = c[i]; step = 1 if b > a else -1
        try:
            r2 = s + PeriodBuilder(**{NAMES[i]: n + step}).build(); r2d = gen.day_of(r2)
            if (b > a and r2d <= b) or (b < a and r2d >= b):
                ctx.V(f"C09:between-date-not-maximal:{cid}", f"{cid} between({gen.ymd(s)},{gen.ymd(e)},{units}) = {p!r}, but {n + step} {NAMES[i]} still does not pass the end (lands on day {r2d})", case, n, n + step)
        except Exception as ex:  # noqa: BLE001
            ctx.exc(ex)
    if k == 8 and c[3] != b - a:
        ctx.V("C09:between-date-days", f"{cid} between(day {a}, day {b}, DAYS) = {p!r}", case, c[3], b - a)
    if k == 4 and c[2] != (abs(b - a) // 7) * (1 if b >= a else -1):
        ctx.V("C09:between-date-weeks", f"{cid} between(day {a}, day {b}, WEEKS) = {p!r}", case, c[2])
    if k == 11:
        try:
            q = e - s
            if q != p or (s + q) != e or e.minus(s) != p:
                ctx.V("C09:date-subtraction", f"{cid} {gen.ymd(e)} - {gen.ymd(s)} = {q!r}; Period.between(YEAR_MONTH_DAY) = {p!r}; start + difference = {gen.ymd(s + q)}", case, repr(q), repr(p))
        except Exception as ex:  # noqa: BLE001
            ctx.exc(ex); ctx.V(f"C09:date-subtraction-raised:{cid}", f"{cid} {gen.ymd(e)} - {gen.ymd(s)} raised {ex!r}", case, repr(ex))
    if k == 8:
        if Period.days_between(s, e) != b - a:
            ctx.V("C09:days_between", f"{cid} Period.days_between(day {a}, day {b}) = {Period.days_between(s, e)}", case)


def between_datetime(ctx, C, s, e, a, ta, b, tb, k):
    from pyoda_time import Period
    from vf.ctx import exc_key
    gen = C.gen; cid = C.cid
    units = mask_units(k)
    Ts, Te = a * DAY + ta, b * DAY + tb
    case = {"kind": "between_datetime", "cal": cid, "a": a, "ta": ta, "b": b, "tb": tb, "mask": k}
    ctx.ev(); ctx.count("between_datetime"); ctx.key((cid, "bdt", k if k.bit_count() <= 2 else ("multi", k & 15 != 0, k >> 4 != 0), (Te > Ts) - (Te < Ts), (tb > ta) - (tb < ta)))
    try:
        p = Period.between(s, e, units)
    except Exception as ex:  # noqa: BLE001
        ctx.exc(ex); ctx.V(f"C09:between-datetime-raised:{exc_key(ex)}", f"{cid} Period.between({s!r},{e!r},{units}) raised {ex!r}", case, repr(ex)); return
    c = comps(p)
    for i in range(10):
        if not (k >> i & 1) and c[i] != 0:
            ctx.V("C09:between-datetime-unrequested-unit", f"{cid} between({s!r},{e!r},{units}) = {p!r} carries {NAMES[i]}", case, repr(p)); return
    fwd = Ts <= Te
    if (fwd and any(v < 0 for v in c)) or (not fwd and any(v > 0 for v in c)):
        ctx.V("C09:between-datetime-sign", f"{cid} between({s!r},{e!r},{units}) = {p!r}: components of mixed or wrong sign", case, repr(p))
    aya = C.in_ayyamiha(s.date) or C.in_ayyamiha(e.date)
    try:
        r = s + p
    except Exception as ex:  # noqa: BLE001
        ctx.exc(ex); ctx.V(f"C09:between-datetime-add-raised:{cid}", f"{cid} {s!r} + {p!r} raised {ex!r}", case, repr(ex)); return
    Tr = gen.day_of(r.date) * DAY + r.nanosecond_of_day
    if not min(Ts, Te) <= Tr <= max(Ts, Te) and not (aya and k & 3):
        ctx.V(f"C09:between-datetime-outside:{cid}", f"{cid} {s!r} + between(..,{e!r},{units}) = {p!r} lands outside [start,end]", case, Tr)
    if k & 512 and r != e:
        ctx.V("C09:between-datetime-not-end", f"{cid} {s!r} + {p!r} = {r!r} != {e!r} although NANOSECONDS was requested", case, repr(r))
    if k & 256 and ta % 100 == 0 and tb % 100 == 0 and r != e:
        ctx.V("C09:between-datetime-not-end-ticks", f"{cid} {s!r} + {p!r} = {r!r} != {e!r} although TICKS was requested", case, repr(r))
    if k in (16, 32, 64, 128, 256, 512):
        i = k.bit_length() - 1; exp = abs(Te - Ts) // FIX[i] * (1 if fwd else -1)
        if c[i] != exp:
            ctx.V("C09:between-datetime-time-unit-count", f"{cid} between({s!r},{e!r},{units}) = {p!r}; exact count is {exp}", case, c[i], exp)


def run_misc(ctx, n):
    from pyoda_time import LocalTime, Period, PeriodBuilder, PeriodUnits
    rng = ctx.rng
    UN = units_list()
    for _ in range(n):
        ta, tb = rng.randrange(DAY), rng.randrange(DAY)
        if rng.random() < 0.2: tb = ta + rng.choice([0, 1, -1]) if 0 < ta < DAY - 1 else ta
        k = rng.choice([1, 2, 4, 8, 16, 32, 63, rng.randint(1, 63)])
        units = mask_units(k << 4)
        s = LocalTime.from_nanoseconds_since_midnight(ta); e = LocalTime.from_nanoseconds_since_midnight(tb)
        case = {"kind": "between_time", "ta": ta, "tb": tb, "mask": k << 4}
        ctx.ev(); ctx.count("between_time"); ctx.key(("bt", k if k.bit_count() == 1 else "multi", (tb > ta) - (tb < ta)))
        try:
            p = Period.between(s, e, units)
        except Exception as ex:  # noqa: BLE001
            ctx.exc(ex); ctx.V(f"C09:between-time-raised:{type(ex).__name__}", f"Period.between({s!r},{e!r},{units}) raised {ex!r}", case, repr(ex)); continue
        c = comps(p)
        if any(c[:4]) or any(c[4 + i] for i in range(6) if not (k >> i & 1)):
            ctx.V("C09:between-time-unrequested-unit", f"between({s!r},{e!r},{units}) = {p!r}", case, repr(p)); continue
        r = s + p; fwd = ta <= tb
        if (fwd and any(v < 0 for v in c)) or (not fwd and any(v > 0 for v in c)):
            ctx.V("C09:between-time-sign", f"between({s!r},{e!r},{units}) = {p!r}", case, repr(p))
        if not min(ta, tb) <= r.nanosecond_of_day <= max(ta, tb):
            ctx.V("C09:between-time-outside", f"{s!r} + {p!r} = {r!r} outside [start,end]", case)
        if k & 32 and r != e:
            ctx.V("C09:between-time-not-end", f"{s!r} + {p!r} = {r!r} != {e!r}", case)
        if k.bit_count() == 1:
            i = 4 + k.bit_length() - 1; exp = abs(tb - ta) // FIX[i] * (1 if fwd else -1)
            if c[i] != exp:
                ctx.V("C09:between-time-unit-count", f"between({s!r},{e!r},{units}) = {p!r}; exact count {exp}", case, c[i], exp)
    for _ in range(n):
        c = [rng.randint(-5, 5) if rng.random() < 0.3 else 0 for _ in range(2)] + [rng.choice([0, 0, rng.randint(-10**4, 10**4), rng.choice([-1, 1]) * rng.getrandbits(40)]) for _ in range(8)]
        p = PeriodBuilder(**dict(zip(NAMES, c))).build()
        case = {"kind": "normalize", "c": c}
        ctx.ev(); ctx.count("normalize"); ctx.key(("norm", tuple((v > 0) - (v < 0) for v in c)))
        try:
            nrm = p.normalize()
        except OverflowError as ex:
            ctx.exc(ex); continue
        if (nrm.years, nrm.months) != (p.years, p.months):
            ctx.V("C09:normalize-years-months", f"{p!r}.normalize() = {nrm!r} changed years/months", case)
        if total_ns(nrm) != total_ns(p):
            ctx.V("C09:normalize-total", f"{p!r}.normalize() = {nrm!r}: fixed-length total {total_ns(nrm)} != {total_ns(p)}", case, total_ns(nrm), total_ns(p))
        if nrm.weeks or nrm.ticks:
            ctx.V("C09:normalize-weeks-ticks", f"{p!r}.normalize() = {nrm!r} keeps weeks or ticks", case)
        cn = comps(nrm)[3:]
        if any(v > 0 for v in cn) and any(v < 0 for v in cn):
            ctx.V("C09:normalize-mixed-sign", f"{p!r}.normalize() = {nrm!r} has mixed signs", case)
        if p.years == 0 and p.months == 0:
            try:
                if p.to_duration().to_nanoseconds() != total_ns(p):
                    ctx.V("C09:to_duration", f"{p!r}.to_duration() = {p.to_duration().to_nanoseconds()} ns, total is {total_ns(p)}", case)
            except (OverflowError, ValueError) as ex:
                ctx.exc(ex)
        else:
            try:
                p.to_duration(); ctx.V("C09:to_duration-with-months", f"{p!r}.to_duration() returned although the period has years/months", case)
            except (RuntimeError, ValueError) as ex:
                ctx.exc(ex)
        b = p.to_builder().build()
        if b != p or hash(b) != hash(p) or comps(b) != c:
            ctx.V("C09:builder-roundtrip", f"{p!r}.to_builder().build() = {b!r}", case)
    # period algebra is component-wise
    for _ in range(n // 4):
        a = [rng.choice([0, rng.randint(-50, 50)]) for _ in range(10)]; b = [rng.choice([0, rng.randint(-50, 50)]) for _ in range(10)]
        pa = PeriodBuilder(**dict(zip(NAMES, a))).build(); pb = PeriodBuilder(**dict(zip(NAMES, b))).build()
        ctx.ev(); ctx.count("normalize")
        case = {"kind": "algebra", "a": a, "b": b}
        if comps(pa + pb) != [x + y for x, y in zip(a, b)] or comps(Period.add(pa, pb)) != [x + y for x, y in zip(a, b)]:
            ctx.V("C09:period-add", f"{pa!r} + {pb!r} = {pa + pb!r} is not the component-wise sum", case)
        if comps(pa - pb) != [x - y for x, y in zip(a, b)] or comps(Period.subtract(pa, pb)) != [x - y for x, y in zip(a, b)]:
            ctx.V("C09:period-sub", f"{pa!r} - {pb!r} = {pa - pb!r} is not the component-wise difference", case)
        if pa.has_date_component != any(a[:4]) or pa.has_time_component != any(a[4:]):
            ctx.V("C09:period-has-component", f"{pa!r}: has_date_component={pa.has_date_component} has_time_component={pa.has_time_component}", case)
        k = rng.randrange(10); v = rng.randint(-10**6, 10**6)
        one = getattr(Period, "from_" + NAMES[k])(v)
        if comps(one) != [v if i == k else 0 for i in range(10)]:
            ctx.V("C09:period-factory", f"Period.from_{NAMES[k]}({v}) = {one!r}", case)
    ctx.sample({"kind": "normalize", "c": [0, 0, 1, -3, 25, 0, 0, 0, 7, 0]})
    for k in REQUIRED["any"]:
        ctx.counters.setdefault(k, 0)


def run_cross(ctx, n):
    """The same (year, month, day) numbers and the same amount asked of several calendars one after the other in one process: each answer is
    the one that calendar gives when asked alone (the period-field objects are shared by all calendars)."""
    from pyoda_time import LocalDate, Period, PeriodUnits
    from vf import gen
    rng = ctx.rng
    cals = [c for c in gen.calendars()]
    for _ in range(n):
        y = rng.choice([1896, 2023, 1400, 5784, 100, rng.randint(1, 9000)]); m = rng.choice([2, 2, 12, 13, 1, 6, 7]); d = rng.choice([29, 30, 28, 1, 5, 6, 31])
        amt = rng.choice([4, 1, -1, 100, -4, 12, 13, rng.randint(-30, 30)])
        order = rng.sample(cals, min(len(cals), 6))
        for unit, fn in (("years", lambda x: x.plus_years(amt)), ("months", lambda x: x.plus_months(amt)), ("period-years", lambda x: x + Period.from_years(amt))):
            alone = {}
            for cal in order:       # reference: asked directly after a neutral call in the SAME calendar (whatever a memo holds is this calendar's)
                try:
                    x = LocalDate(y, m, d, cal)
                except Exception:  # noqa: BLE001
                    continue
                try:
                    fn(LocalDate((cal.min_year + cal.max_year) // 2, 1, 1, cal))
                except Exception as e:  # noqa: BLE001
                    ctx.exc(e)
                try:
                    r_ = fn(x); alone[cal.id] = gen.ymd(r_) + (gen.day_of(r_),)
                except Exception as e:  # noqa: BLE001
                    alone[cal.id] = ("raised", type(e).__name__)
            for rounds in range(2):  # now back to back across calendars, twice, in seeded order
                for cal in order:
                    if cal.id not in alone: continue
                    x = LocalDate(y, m, d, cal)
                    ctx.ev(); ctx.count("cross_calendar_additions"); ctx.key(("cross", unit, cal.id))
                    try:
                        r_ = fn(x); got = gen.ymd(r_) + (gen.day_of(r_),)
                        if r_.calendar is not cal or gen.ymd(gen.date_of(gen.day_of(r_), cal)) != gen.ymd(r_): got = ("invalid-date", gen.ymd(r_))
                    except Exception as e:  # noqa: BLE001
                        got = ("raised", type(e).__name__)
                    if got != alone[cal.id]:
                        ctx.V(f"C09:cross-calendar-{unit}", f"{cal.id} {y}-{m}-{d} {unit} {amt:+d} gives {got} right after the same question was put to another calendar; asked within its own calendar it gives {alone[cal.id]}",
                              {"kind": "cross", "cal": cal.id, "ymd": [y, m, d], "amt": amt, "unit": unit}, got, alone[cal.id])
    ctx.sample({"kind": "cross", "n": n})
    for k in REQUIRED["any"]:
        ctx.counters.setdefault(k, 0)


def run(ctx, shard):
    if shard["part"] == "cross":
        run_cross(ctx, shard["n"]); return
    if shard["part"] == "cal":
        run_cal(ctx, shard["cal"], shard["n"])
    else:
        run_misc(ctx, shard["n"])


def replay(ctx, case):
    from pyoda_time import LocalTime
    from vf import gen
    ctx.distinct(2)
    for k in REQUIRED["any"]:
        ctx.counters.setdefault(k, 0)
    kind = case["kind"]
    if kind in ("between_date", "between_datetime"):
        C = CalCtx(ctx, case["cal"]); cal = C.cal
        s = gen.date_of(case["a"], cal); e = gen.date_of(case["b"], cal)
        if kind == "between_date":
            between_date(ctx, C, s, e, case["a"], case["b"], case["mask"])
        else:
            between_datetime(ctx, C, s.at(LocalTime.from_nanoseconds_since_midnight(case["ta"])), e.at(LocalTime.from_nanoseconds_since_midnight(case["tb"])),
                             case["a"], case["ta"], case["b"], case["tb"], case["mask"])
    elif "part" in ctx.shard:
        run(ctx, ctx.shard)      # original shard restored by the runner
    elif "cal" in case:
        run_cal(ctx, case["cal"], 140)
    else:
        run_misc(ctx, 2500)
