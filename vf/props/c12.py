"""C12 — value semantics: equality, hash, order, immutability (DESIGN §3 C12).

Law monitor over pools whose members carry a model key (built through different construction routes, in mixed
calendars) + immutability monitor (deep fingerprint of value-type state before/after reflective public calls).
"""
from __future__ import annotations

import inspect
import itertools

LEVEL = "exploration"
RULE = ("per type group a pool of 16-40 values with model keys: neighbours +-1 unit, twins built through a different construction route, the same "
        "field numbers in several calendars, Hebrew scriptural month 6/7 boundary, extremes; all ordered pairs judged for ==/!=/hash/order/compare_to/"
        "min/max, sampled triples for transitivity; reflective random public calls for immutability; distinct key = (group, law, equal/unequal, "
        "same/different calendar) and (type, method) for immutability")
ASSUMPTIONS = ["model keys: int nanoseconds/seconds/day numbers, calendar id, zone id", "state fingerprint recurses through value types only (stops at CalendarSystem, DateTimeZone, patterns)"]
MIN_NT = {"quick": 300, "thorough": 400}
REQUIRED = {"any": ["pairs", "triples", "cross_calendar_order", "unrelated_order", "immut_calls"]}

DAY = 86400 * 10**9


def shards(tier, seed):
    k = 3 if tier == "quick" else 24
    out = [{"name": f"laws:{i}", "part": "laws", "rounds": 2 if tier == "quick" else 8} for i in range(k)]
    out += [{"name": f"immut:{i}", "part": "immut", "iters": 120 if tier == "quick" else 900} for i in range(2 if tier == "quick" else 8)]
    return out


def sign(x):
    return (x > 0) - (x < 0)


# ---------------------------------------------------------------- pools
def build_pools(rng):
    """Return list of (group, ordered, items) with items = (eqkey, ordkey, calgroup, value, route)."""
    from pyoda_time import (AnnualDate, CalendarSystem, DateInterval, DateTimeZone, DateTimeZoneProviders, Duration, Instant, Interval, LocalDate,
                            LocalDateTime, LocalTime, Offset, OffsetDate, OffsetDateTime, OffsetTime, Period, PeriodBuilder, YearMonth, ZonedDateTime)
    from pyoda_time.time_zones import ZoneInterval
    from vf import gen
    G = []
    # Duration
    base = rng.choice([0, DAY, -DAY, rng.randint(gen.DUR_MIN_NS + 10, gen.DUR_MAX_NS - 10), 10**9 * rng.randint(-10**6, 10**6)])
    ns_vals = [base + k for k in (-1, 0, 1, 100, -100)] + [gen.DUR_MIN_NS, gen.DUR_MAX_NS, 0, DAY, -DAY, 2 * DAY, -3 * DAY, 48 * 3600 * 10**9 + 10**9, DAY - 1, -DAY + 1] + [rng.randint(-10**6, 10**6) for _ in range(4)]
    items = []
    for n in ns_vals:
        if not gen.DUR_MIN_NS <= n <= gen.DUR_MAX_NS: continue
        items.append((n, n, None, Duration.from_nanoseconds(n), "from_nanoseconds"))
        d, r = divmod(n, DAY)
        if gen.DUR_MIN_NS <= d * DAY <= gen.DUR_MAX_NS:
            items.append((n, n, None, Duration.from_days(d) + Duration.from_nanoseconds(r), "days+ns"))
        if n % 100 == 0: items.append((n, n, None, Duration.from_ticks(n // 100), "from_ticks"))
        for unit_, u_ in (("days", DAY), ("hours", 3600 * 10**9), ("seconds", 10**9), ("milliseconds", 10**6)):
            if n % u_ == 0 and abs(n // u_) < 2**50:
                try:
                    items.append((n, n, None, getattr(Duration, "from_" + unit_)(float(n // u_)), f"from_{unit_}(float)"))
                except Exception:  # noqa: BLE001
                    pass
    G.append(("Duration", True, items))
    # Instant
    base = rng.choice([0, rng.randint(gen.INST_MIN_NS + 10, gen.INST_MAX_NS - 10)])
    items = []
    for n in [base + k for k in (-1, 0, 1, 100)] + [gen.INST_MIN_NS, gen.INST_MAX_NS, 0, DAY, -DAY, -1, 1, 18262 * DAY, 5 * DAY + 19 * 3600 * 10**9] + [rng.randint(-10**12, 10**12) for _ in range(3)]:
        if not gen.INST_MIN_NS <= n <= gen.INST_MAX_NS: continue
        items.append((n, n, None, gen.ns_inst(n), "plus_nanoseconds"))
        items.append((n, n, None, Instant.from_unix_time_ticks(n // 100).plus_nanoseconds(n % 100), "ticks+ns"))
        # the same instant reached through a local date-time and an offset (also offsets that put the instant exactly on a UTC midnight)
        if gen.INST_MIN_NS + 3 * DAY < n < gen.INST_MAX_NS - 3 * DAY:
            for off_s in (-18000, 3600, -(n % DAY) // 10**9 if (n % DAY) % 10**9 == 0 and 0 < (n % DAY) // 10**9 <= 64800 else 7200, (DAY - n % DAY) // 10**9 if (n % DAY) % 10**9 == 0 and 0 < (DAY - n % DAY) // 10**9 <= 64800 else -7200):
                try:
                    o_ = Offset.from_seconds(off_s)
                    items.append((n, n, None, gen.ns_inst(n).with_offset(o_).to_instant(), f"via-offset({off_s})"))
                    items.append((n, n, None, gen.ns_inst(n).in_zone(DateTimeZone.for_offset(o_)).to_instant(), f"via-zone({off_s})"))
                except Exception:  # noqa: BLE001
                    pass
    G.append(("Instant", True, items))
    # Offset
    items = []
    for s in [0, 1, -1, 3600, -3600, 64800, -64800, 1800] + [rng.randint(-64800, 64800) for _ in range(5)]:
        items.append((s, s, None, Offset.from_seconds(s), "from_seconds"))
        items.append((s, s, None, Offset.from_milliseconds(s * 1000), "from_milliseconds"))
    G.append(("Offset", True, items))
    # LocalTime
    items = []
    b = rng.randrange(1, DAY - 1)
    for n in [0, 1, DAY - 1, b - 1, b, b + 1, DAY // 2] + [rng.randrange(DAY) for _ in range(5)]:
        items.append((n, n, None, LocalTime.from_nanoseconds_since_midnight(n), "from_ns"))
        if n % 100 == 0: items.append((n, n, None, LocalTime.from_ticks_since_midnight(n // 100), "from_ticks"))
        items.append((n, n, None, LocalTime.midnight.plus_nanoseconds(n), "plus"))
    G.append(("LocalTime", True, items))
    # dates in mixed calendars
    cals = list(gen.calendars())
    iso = CalendarSystem.iso
    hs = next((c for c in cals if c.id == "Hebrew Scriptural"), None)
    chosen = [iso, next(c for c in cals if c.id == "Gregorian")] + rng.sample([c for c in cals if c.id not in ("ISO", "Gregorian")], 2)
    if hs is not None and rng.random() < 0.6 and hs not in chosen:
        chosen[-1] = hs
    lo = max(gen.cal_range(c.id)[0] for c in chosen) + 500; hi = min(gen.cal_range(c.id)[1] for c in chosen) - 500
    if lo >= hi:  # e.g. Um Al Qura with Badi: fall back to the first three
        chosen = chosen[:3]; lo = max(gen.cal_range(c.id)[0] for c in chosen) + 500; hi = min(gen.cal_range(c.id)[1] for c in chosen) - 500
    bday = rng.randint(lo, hi)
    days = [bday + k for k in (-1, 0, 1)] + [bday + rng.randint(-420, 420) for _ in range(4)]
    ditems = []
    for c in chosen:
        for d in days:
            x = gen.date_of(d, c)
            ditems.append(((c.id, d), d, c.id, x, "day"))
            ditems.append(((c.id, d), d, c.id, LocalDate(x.year, x.month, x.day, c), "ymd"))
        # the same field numbers in the other calendars (a different day)
        x0 = gen.date_of(bday, chosen[0])
        try:
            y = LocalDate(x0.year, x0.month, x0.day, c)
            ditems.append(((c.id, gen.day_of(y)), gen.day_of(y), c.id, y, "same-numbers"))
        except Exception:  # noqa: BLE001
            pass
    if hs in chosen:  # month starts of one scriptural year: numeric month order != calendar order
        y = gen.date_of(bday, hs).year
        for m in range(1, hs.get_months_in_year(y) + 1):
            x = LocalDate(y, m, 1, hs)
            ditems.append(((hs.id, gen.day_of(x)), gen.day_of(x), hs.id, x, "hs-month-start"))
            x = LocalDate(y, m, hs.get_days_in_month(y, m), hs)
            ditems.append(((hs.id, gen.day_of(x)), gen.day_of(x), hs.id, x, "hs-month-end"))
    G.append(("LocalDate", True, ditems))
    # LocalDateTime
    titems = []
    for (ek, ok, cg, x, route) in rng.sample(ditems, min(len(ditems), 14)):
        for t in (0, 5, DAY - 1):
            titems.append(((ek, t), (ok, t), cg, x.at(LocalTime.from_nanoseconds_since_midnight(t)), route))
    G.append(("LocalDateTime", True, titems))
    # YearMonth
    yitems = []
    for (ek, ok, cg, x, route) in ditems:
        cal = x.calendar
        first = gen.day_of(LocalDate(x.year, x.month, 1, cal))
        yitems.append(((cg, x.year, x.month), first, cg, x.to_year_month(), "to_year_month"))
        yitems.append(((cg, x.year, x.month), first, cg, YearMonth(year=x.year, month=x.month, calendar=cal), "ctor"))
    G.append(("YearMonth", True, rng.sample(yitems, min(len(yitems), 34))))
    # AnnualDate
    aitems = []
    for (m, d) in [(1, 1), (2, 29), (2, 28), (12, 31), (3, 1), (rng.randint(1, 12), rng.randint(1, 28))]:
        aitems.append(((m, d), (m, d), None, AnnualDate(m, d), "ctor"))
        aitems.append(((m, d), (m, d), None, AnnualDate(month=m, day=d), "kw"))
    G.append(("AnnualDate", True, aitems))
    # Offset* types (no ordering operators)
    offs = [Offset.from_seconds(s) for s in (0, 3600, -3600, rng.randint(-64800, 64800))]
    oitems = []
    for (ek, ok, cg, x, route) in rng.sample(ditems, min(len(ditems), 8)):
        for o in offs[:3]:
            oitems.append(((ek, o.seconds), None, None, OffsetDate(x, o), "ctor"))
            oitems.append(((ek, o.seconds), None, None, x.with_offset(o), "with_offset"))
    G.append(("OffsetDate", False, oitems))
    otitems = []
    for n in (0, 1, DAY - 1, rng.randrange(DAY)):
        for o in offs:
            lt = LocalTime.from_nanoseconds_since_midnight(n)
            otitems.append(((n, o.seconds), None, None, OffsetTime(lt, o), "ctor"))
            otitems.append(((n, o.seconds), None, None, lt.with_offset(o), "with_offset"))
    G.append(("OffsetTime", False, otitems))
    oditems = []
    for (ek, ok, cg, x, route) in rng.sample(titems, min(len(titems), 8)):
        for o in offs[:3]:
            oditems.append(((ek, o.seconds), None, None, OffsetDateTime(x, o), "ctor"))
            oditems.append(((ek, o.seconds), None, None, x.with_offset(o), "with_offset"))
    # same instant, different offset (must be unequal)
    G.append(("OffsetDateTime", False, oditems))
    # ZonedDateTime: same instant & zone in several calendars must differ
    tz = DateTimeZoneProviders.tzdb
    zones = [tz["Europe/London"], tz["America/New_York"], DateTimeZone.utc, DateTimeZone.for_offset(Offset.from_hours(2))]
    zitems = []
    for n in [rng.randint(-10**18, 4 * 10**18) for _ in range(3)]:
        i = gen.ns_inst(n)
        for z in zones[:3] if rng.random() < 0.5 else zones[1:]:
            for c in chosen[:3]:
                if gen.cal_range(c.id)[0] + 2 <= n // DAY <= gen.cal_range(c.id)[1] - 2:
                    zitems.append(((z.id, c.id, n), None, None, i.in_zone(z, c), "in_zone"))
                    zitems.append(((z.id, c.id, n), None, None, ZonedDateTime(instant=i, zone=z, calendar=c), "ctor"))
    G.append(("ZonedDateTime", False, zitems))
    # Interval
    iitems = []
    pts = [None, gen.INST_MIN_NS, 0, 1, rng.randint(-10**15, 10**15), gen.INST_MAX_NS]
    for a, b in itertools.product(pts, pts):
        if a is not None and b is not None and b < a: continue
        if rng.random() < 0.6:
            iitems.append(((a, b), None, None, Interval(None if a is None else gen.ns_inst(a), None if b is None else gen.ns_inst(b)), "ctor"))
            iitems.append(((a, b), None, None, Interval(start=None if a is None else gen.ns_inst(a), end=None if b is None else gen.ns_inst(b)), "kw"))
    G.append(("Interval", False, iitems[:36]))
    # DateInterval
    dii = []
    for (ek, ok, cg, x, route) in rng.sample(ditems, min(len(ditems), 8)):
        for ln in (0, 1, 7):
            try:
                e = x.plus_days(ln)
            except Exception:  # noqa: BLE001
                continue
            dii.append(((cg, ok, ok + ln), None, None, DateInterval(x, e), route))
            dii.append(((cg, ok, ok + ln), None, None, DateInterval(gen.date_of(ok, x.calendar), gen.date_of(ok + ln, x.calendar)), "day"))
    G.append(("DateInterval", False, dii))
    # Period: component-wise equality (P1D != PT24H)
    pitems = []
    comps = [(0,) * 10, (0, 0, 0, 1, 0, 0, 0, 0, 0, 0), (0, 0, 0, 0, 24, 0, 0, 0, 0, 0), (0, 0, 1, 0, 0, 0, 0, 0, 0, 0), (0, 0, 0, 7, 0, 0, 0, 0, 0, 0),
             (1, 2, 3, 4, 5, 6, 7, 8, 9, 10), (0, 12, 0, 0, 0, 0, 0, 0, 0, 0), (1, 0, 0, 0, 0, 0, 0, 0, 0, 0), (0, 0, 0, 0, 0, 0, 0, 1, 0, 0), (0, 0, 0, 0, 0, 0, 0, 0, 10000, 0),
             tuple(rng.randint(-5, 5) for _ in range(10))]
    names = ("years", "months", "weeks", "days", "hours", "minutes", "seconds", "milliseconds", "ticks", "nanoseconds")
    for c in comps:
        pitems.append((c, None, None, PeriodBuilder(**dict(zip(names, c))).build(), "builder"))
        p = Period.zero
        for nm, v in zip(names, c):
            if v: p = p + getattr(Period, "from_" + nm)(v)
        pitems.append((c, None, None, p, "sum"))
    G.append(("Period", False, pitems))
    # the same physical day in calendars that share a display NAME (Hebrew civil/scriptural, the Persian and the Hijri variants): different values
    try:
        from pyoda_time import OffsetDate
        grp = []
        for ids_ in (("Hebrew Civil", "Hebrew Scriptural"), ("Persian Simple", "Persian Arithmetic", "Persian Algorithmic"), ("Hijri Civil-Base15", "Hijri Civil-Indian", "Hijri Astronomical-Base16")):
            for dd in (19792, 19793 + rng.randint(0, 300)):
                for cid_ in ids_:
                    try:
                        c_ = gen.cal_by_id(cid_); ld_ = gen.date_of(dd, c_)
                    except Exception:  # noqa: BLE001
                        continue
                    for off_s in (0, 3600):
                        for via in ("a", "b"):
                            grp.append(((cid_, dd, off_s), None, None, OffsetDate(ld_, Offset.from_seconds(off_s)), via))
        G.append(("OffsetDateNamedCalendars", False, grp[:60]))
    except Exception:  # noqa: BLE001
        pass
    # ZoneInterval
    zi = []
    for nm in ("A", "B"):
        for a, b in ((None, 0), (0, 10**9), (0, None), (None, None), (1, 10**9), (gen.INST_MIN_NS, 0), (gen.INST_MIN_NS + 3600 * 10**9, 0), (gen.INST_MIN_NS + 1, 0),
                     (0, gen.INST_MAX_NS), (0, gen.INST_MAX_NS - 3600 * 10**9), (0, gen.INST_MAX_NS - 1)):
            for w, s in ((3600, 0), (3600, 3600), (0, 0), (-18000, 0), (64800, 3600), (-64800, 0)):
                if rng.random() < (0.5 if abs(a or 0) < 10**19 and abs(b or 0) < 10**19 else 0.8):
                    mk = lambda: ZoneInterval(name=nm, start=None if a is None else gen.ns_inst(a), end=None if b is None else gen.ns_inst(b),  # noqa: E731
                                              wall_offset=Offset.from_seconds(w), savings=Offset.from_seconds(s))
                    zi.append(((nm, a, b, w, s), None, None, mk(), "ctor")); zi.append(((nm, a, b, w, s), None, None, mk(), "ctor2"))
    lon = tz["Europe/London"]
    for n in (0, 10**18, 15 * 10**17):
        v = lon.get_zone_interval(gen.ns_inst(n))
        k = (v.name, gen.inst_ns(v.start) if v.has_start else None, gen.inst_ns(v.end) if v.has_end else None, v.wall_offset.seconds, v.savings.seconds)
        zi.append((k, None, None, v, "zone")); zi.append((k, None, None, lon.get_zone_interval(gen.ns_inst(n + 1)), "zone+1"))
    rng.shuffle(zi)
    G.append(("ZoneInterval", False, zi[:70]))
    # fixed zones
    fz = []
    for s in (0, 3600, 1800, 5, -64800, rng.randint(-64800, 64800)):
        o = Offset.from_seconds(s)
        fz.append((s, None, None, DateTimeZone.for_offset(o), "for_offset")); fz.append((s, None, None, DateTimeZone.for_offset(Offset.from_milliseconds(s * 1000)), "for_offset2"))
    G.append(("FixedZone", False, fz))
    # fixed zones as the tz data defines them: id, offset and interval name are all part of the value (the same id is served with different
    # names by different tzdb versions, e.g. Etc/GMT+5 named "Etc/GMT+5" in 2013b and "-05" today)
    try:
        from pyoda_time.time_zones._fixed_date_time_zone import _FixedDateTimeZone
        fz2 = []
        for s, id_, nm in ((0, "Etc/UTC", "UTC"), (0, "Etc/UTC", "Etc/UTC"), (-18000, "Etc/GMT+5", "-05"), (-18000, "Etc/GMT+5", "Etc/GMT+5"), (-18000, "Other", "-05"), (3600, "Etc/GMT+5", "-05"), (0, "Etc/UTC", "")):
            for via in ("ctor", "ctor2"):
                fz2.append(((s, id_, nm), None, None, _FixedDateTimeZone(Offset.from_seconds(s), id_, nm), via))
        G.append(("FixedZoneNamed", False, fz2))
    except Exception:  # noqa: BLE001  (private constructor not available in this tree: the group is skipped)
        pass
    return G


def extract(group, v):
    """Component extractor from public accessors only (the 'documented components')."""
    from vf import gen
    if group == "OffsetDateNamedCalendars": return (v.calendar.id, gen.day_of(v.date), v.offset.seconds)
    if group == "FixedZoneNamed": return (v.offset.seconds if hasattr(v, "offset") else v.min_offset.seconds, v.id, v.name)
    if group == "Duration": return v.to_nanoseconds()
    if group == "Instant": return gen.inst_ns(v)
    if group == "Offset": return v.seconds
    if group == "LocalTime": return v.nanosecond_of_day
    if group == "LocalDate": return (v.calendar.id, v.year, v.month, v.day)
    if group == "LocalDateTime": return (v.calendar.id, v.year, v.month, v.day, v.nanosecond_of_day)
    if group == "YearMonth": return (v.calendar.id, v.year, v.month)
    if group == "AnnualDate": return (v.month, v.day)
    if group == "OffsetDate": return (v.calendar.id, v.year, v.month, v.day, v.offset.seconds)
    if group == "OffsetTime": return (v.nanosecond_of_day, v.offset.seconds)
    if group == "OffsetDateTime": return (v.calendar.id, v.year, v.month, v.day, v.nanosecond_of_day, v.offset.seconds)
    if group == "ZonedDateTime": return (v.zone.id, v.calendar.id, gen.inst_ns(v.to_instant()), v.year, v.month, v.day)
    if group == "Interval": return (gen.inst_ns(v.start) if v.has_start else None, gen.inst_ns(v.end) if v.has_end else None)
    if group == "DateInterval": return (v.calendar.id, gen.ymd(v.start), gen.ymd(v.end))
    if group == "Period": return (v.years, v.months, v.weeks, v.days, v.hours, v.minutes, v.seconds, v.milliseconds, v.ticks, v.nanoseconds)
    if group == "ZoneInterval": return (v.name, gen.inst_ns(v.start) if v.has_start else None, gen.inst_ns(v.end) if v.has_end else None, v.wall_offset.seconds, v.savings.seconds)
    if group == "FixedZone": return (v.id, v.get_utc_offset(gen.ns_inst(0)).seconds)
    return None


def laws(ctx, rounds):
    from vf.ctx import exc_key
    rng = ctx.rng
    for rnd in range(rounds):
        for group, ordered, items in build_pools(rng):
            T = type(items[0][3]) if items else None
            hashable = T is not None and getattr(T, "__hash__", None) is not None
            if not hashable:
                ctx.note(f"{group}: __hash__ is None (unhashable) - hash law skipped")
            def V(k, what, a, b, c=None):
                case = {"kind": "law", "group": group, "a": [repr(a[0]), a[4]], "b": [repr(b[0]), b[4]]}
                ctx.V(f"C12:{group}:{k}", f"{group} {k}: {what}; a={a[3]!r} (key {a[0]}, via {a[4]}) b={b[3]!r} (key {b[0]}, via {b[4]})", case)
            # component extractor consistency: equal model keys <=> equal public components
            comp = {}
            for it in items:
                try:
                    comp[id(it[3])] = extract(group, it[3])
                except Exception as e:  # noqa: BLE001
                    ctx.exc(e); comp[id(it[3])] = ("extract-failed", repr(e))
            for a, b in itertools.product(items, items):
                ka, kb = a[0], b[0]; x, y = a[3], b[3]
                ctx.ev(); ctx.count("pairs")
                exp_eq = ka == kb
                same_cal = a[2] == b[2]
                ctx.key((group, "eq", exp_eq, same_cal))
                try:
                    eq = (x == y)
                    if eq != exp_eq: V("eq", f"== gives {eq}, components {'equal' if exp_eq else 'differ'}", a, b)
                    if (x != y) == eq: V("ne", "!= is not the negation of ==", a, b)
                    if (comp[id(x)] == comp[id(y)]) != exp_eq: V("components", f"public components {comp[id(x)]} vs {comp[id(y)]} disagree with model keys", a, b)
                    if hasattr(x, "equals") and x.equals(y) != exp_eq: V("equals", f"equals() gives {x.equals(y)}", a, b)
                    if exp_eq and hashable:
                        if hash(x) != hash(y): V("hash", "equal values hash differently", a, b)
                        if y not in {x} or {x: 1}.get(y) != 1: V("set-membership", "equal value not found in set/dict", a, b)
                    if (y == x) != eq: V("eq-symmetry", "== is not symmetric", a, b)
                except Exception as e:  # noqa: BLE001
                    ctx.exc(e); V(f"eq-raised:{exc_key(e)}", f"equality raised {e!r}", a, b); continue
                if not ordered:
                    continue
                if not same_cal:
                    ctx.count("cross_calendar_order"); ctx.key((group, "cross-cal"))
                    fns = [("<", lambda: x < y), ("<=", lambda: x <= y), (">", lambda: x > y), (">=", lambda: x >= y), ("compare_to", lambda: x.compare_to(y))]
                    if hasattr(T, "max"): fns += [("max", lambda: T.max(x, y)), ("min", lambda: T.min(x, y))]
                    for nm, fn in fns:
                        try:
                            r = fn()
                            V(f"cross-calendar-{nm}-answered", f"{nm} across calendars returned {r!r} instead of raising", a, b)
                        except (ValueError, TypeError) as e:
                            ctx.exc(e)
                        except Exception as e:  # noqa: BLE001
                            ctx.exc(e); V(f"cross-calendar-{nm}-unexpected:{type(e).__name__}", f"raised {e!r}", a, b)
                    continue
                oa, ob = a[1], b[1]
                ctx.key((group, "order", sign((oa > ob) - (oa < ob))))
                try:
                    got = (x < y, x > y, x <= y, x >= y)
                    exp = (oa < ob, oa > ob, oa <= ob, oa >= ob)
                    if got != exp: V("order", f"(<,>,<=,>=) = {got}, model {exp}", a, b)
                    c = x.compare_to(y)
                    if sign(c) != sign((oa > ob) - (oa < ob)): V("compare_to", f"compare_to = {c}", a, b)
                    if hasattr(T, "max"):
                        mx, mn = T.max(x, y), T.min(x, y)
                        if not ((mx == x if oa >= ob else mx == y) and (mn == x if oa <= ob else mn == y)):
                            V("minmax", f"max={mx!r} min={mn!r}", a, b)
                        if max(x, y) != mx or min(x, y) != mn: V("builtin-minmax", "builtin max()/min() disagree with Type.max/min", a, b)
                except Exception as e:  # noqa: BLE001
                    ctx.exc(e); V(f"order-raised:{exc_key(e)}", f"ordering raised {e!r}", a, b)
            # transitivity on sampled triples
            for _ in range(60):
                if len(items) < 3: break
                a, b, c = rng.sample(items, 3)
                ctx.ev(); ctx.count("triples")
                try:
                    if a[3] == b[3] and b[3] == c[3] and not a[3] == c[3]:
                        V("eq-transitivity", f"a==b==c but a!=c (c={c[3]!r})", a, b)
                    if ordered and a[2] == b[2] == c[2]:
                        if a[3] <= b[3] and b[3] <= c[3] and not a[3] <= c[3]:
                            V("order-transitivity", f"a<=b<=c but not a<=c (c={c[3]!r})", a, b)
                        if len({a[1], b[1], c[1]}) == 3:
                            got = [extract(group, v) for v in sorted([a[3], b[3], c[3]])]
                            exp = [extract(group, it[3]) for it in sorted([a, b, c], key=lambda it: it[1])]
                            if got != exp:
                                V("sorted", f"sorted() gives {got}, model order {exp}", a, b)
                except Exception as e:  # noqa: BLE001
                    ctx.exc(e)
            # ordering against unrelated types is refused; equality with them is False
            if items:
                x = items[0][3]
                others = [5, "x", object(), None, 1.5]
                og = [g for g in ("Duration", "Instant", "Offset", "LocalTime") if g != group]
                for other in others:
                    ctx.ev()
                    try:
                        if x == other: ctx.V(f"C12:{group}:eq-unrelated", f"{x!r} == {other!r} is True", {"kind": "law", "group": group})
                    except Exception as e:  # noqa: BLE001
                        ctx.exc(e); ctx.V(f"C12:{group}:eq-unrelated-raised", f"{x!r} == {other!r} raised {e!r}", {"kind": "law", "group": group})
                    if ordered:
                        ctx.count("unrelated_order"); ctx.key((group, "unrelated", type(other).__name__))
                        for nm, fn in (("<", lambda: x < other), ("<=", lambda: x <= other), (">", lambda: x > other), (">=", lambda: x >= other)):
                            if other is None and nm in ("<", "<="):
                                pass
                            try:
                                r = fn()
                                ctx.V(f"C12:{group}:order-unrelated-answered", f"{x!r} {nm} {other!r} returned {r!r} instead of raising TypeError", {"kind": "law", "group": group, "op": nm, "other": repr(other)})
                            except TypeError as e:
                                ctx.exc(e)
                            except Exception as e:  # noqa: BLE001
                                ctx.exc(e); ctx.V(f"C12:{group}:order-unrelated-unexpected:{type(e).__name__}", f"{x!r} {nm} {other!r} raised {e!r}", {"kind": "law", "group": group})
            if rnd == 0 and items:
                ctx.sample({"group": group, "n": len(items), "first": repr(items[0][3]), "key": repr(items[0][0])}, cap=6)


# ---------------------------------------------------------------- immutability
def make_fp():
    from pyoda_time import CalendarSystem, DateTimeZone
    STOP = (CalendarSystem, DateTimeZone, type)

    def fp(o, depth=0, seen=None):
        seen = seen if seen is not None else set()
        if isinstance(o, (int, str, float, bytes, bool, type(None))): return o
        if isinstance(o, STOP) or depth > 6 or id(o) in seen: return ("id", id(o))
        mod = type(o).__module__ or ""
        if isinstance(o, (list, tuple)): return tuple(fp(x, depth + 1, seen) for x in o)
        if isinstance(o, dict): return tuple(sorted((str(k), fp(v, depth + 1, seen)) for k, v in o.items()))
        if not mod.startswith("pyoda_time") or "text" in mod or "calendars" in mod or "time_zones._" in mod and "zone_interval" not in mod:
            return ("id", id(o))
        seen.add(id(o))
        d = getattr(o, "__dict__", None)
        items = []
        if d is not None: items += sorted(d.items())
        for cls in type(o).__mro__:
            for s in getattr(cls, "__slots__", ()):
                n = s if not s.startswith("__") else f"_{cls.__name__.lstrip('_')}{s}"
                if hasattr(o, n): items.append((n, getattr(o, n)))
        return (type(o).__name__, tuple((k, fp(v, depth + 1, seen)) for k, v in items))
    return fp


def immut(ctx, iters):
    from pyoda_time import (AnnualDate, CalendarSystem, DateInterval, DateTimeZoneProviders, Duration, Instant, Interval, IsoDayOfWeek, LocalDate, LocalTime,
                            Offset, Period)
    from vf import gen
    rng = ctx.rng
    fp = make_fp()
    tz = DateTimeZoneProviders.tzdb
    cals = [c for c in gen.calendars() if c.id in ("ISO", "Julian", "Hebrew Civil", "Coptic", "Persian Simple", "Hebrew Scriptural", "Gregorian")]
    zones = [tz["Europe/London"], tz["America/New_York"], tz["Pacific/Apia"]]
    def pool():
        cal = rng.choice(cals)
        ld = LocalDate(2000, 1, 1).with_calendar(cal).plus_days(rng.randint(-3000, 3000))
        lt = LocalTime.from_nanoseconds_since_midnight(rng.randrange(DAY))
        ldt = ld.at(lt); off = Offset.from_seconds(rng.randint(-64800, 64800)); dur = Duration.from_nanoseconds(rng.randint(-10**15, 10**15))
        per = Period.from_days(rng.randint(-50, 50)) + Period.from_months(rng.randint(-5, 5))
        pert = Period.from_hours(rng.randint(-50, 50)) + Period.from_nanoseconds(rng.randint(-10**12, 10**12))
        inst = Instant.from_unix_time_seconds(rng.randint(-10**9, 4 * 10**9)).plus_nanoseconds(rng.choice([0, 1, 99, 100, rng.randrange(10**9)]))
        z = rng.choice(zones)
        return dict(LocalDate=ld, LocalTime=lt, LocalDateTime=ldt, Offset=off, Duration=dur, Period=per, Instant=inst, OffsetDateTime=ldt.with_offset(off), OffsetDate=ld.with_offset(off),
                    OffsetTime=lt.with_offset(off), YearMonth=ld.to_year_month(), AnnualDate=AnnualDate(rng.randint(1, 12), rng.randint(1, 28)), DateInterval=DateInterval(ld, ld.plus_days(rng.randint(0, 9))),
                    Interval=Interval(inst, inst + Duration.from_seconds(rng.randint(0, 9))), ZonedDateTime=inst.in_zone(z, cal), int=rng.randint(-40, 40), IsoDayOfWeek=IsoDayOfWeek(rng.randint(1, 7)),
                    CalendarSystem=cal, DateTimeZone=z, PeriodT=pert, ZoneInterval=z.get_zone_interval(inst))
    DUNDER = ("__add__", "__sub__", "__neg__", "__eq__", "__lt__", "__hash__", "__and__", "__or__", "__contains__", "__len__", "__iter__", "__repr__", "__mul__", "__truediv__", "__format__", "__str__")
    TYPES = ("LocalDate", "LocalTime", "LocalDateTime", "Offset", "Duration", "Period", "Instant", "OffsetDateTime", "OffsetDate", "OffsetTime", "YearMonth", "AnnualDate", "DateInterval", "Interval", "ZonedDateTime", "ZoneInterval")
    KEYS = ("LocalDateTime", "LocalDate", "LocalTime", "OffsetDateTime", "Offset", "Duration", "Period", "Instant", "YearMonth", "DateInterval", "Interval", "IsoDayOfWeek", "CalendarSystem", "DateTimeZone", "int")
    for it in range(iters):
        P = pool(); P2 = pool()
        for tname in TYPES:
            o = P[tname]; T = type(o)
            names = [n for n in dir(T) if not n.startswith("_") or n in DUNDER]
            for name in rng.sample(names, min(10, len(names))):
                try:
                    attr = inspect.getattr_static(T, name)
                except AttributeError:
                    continue
                if isinstance(attr, property):
                    before = fp(o)
                    try:
                        getattr(o, name)
                    except Exception as e:  # noqa: BLE001
                        ctx.exc(e)
                    ctx.ev(); ctx.count("immut_calls"); ctx.key(("immut", tname, name))
                    if fp(o) != before:
                        ctx.V(f"C12:immutability:{tname}.{name}", f"reading property {tname}.{name} changed the receiver's state", {"kind": "immut", "type": tname, "member": name, "value": repr(o)})
                    continue
                f = getattr(o, name, None)
                if not callable(f): continue
                try:
                    sig = inspect.signature(f)
                except (TypeError, ValueError):
                    continue
                params = [p for p in sig.parameters.values() if p.kind in (p.POSITIONAL_ONLY, p.POSITIONAL_OR_KEYWORD)]
                args = []
                for p in params:
                    ann = str(p.annotation); cand = None
                    for key in KEYS:
                        if key in ann:
                            cand = P2[key]; break
                    if cand is None and p.default is p.empty: cand = P2.get(tname)
                    if cand is None and p.default is not p.empty: continue
                    if "Period" in ann and tname == "LocalTime": cand = P2["PeriodT"]
                    args.append(cand)
                before = fp(o); bargs = [fp(a) for a in args]
                try:
                    r = f(*args)
                    if inspect.isgenerator(r) or hasattr(r, "__next__"): list(itertools.islice(r, 50))
                except Exception as e:  # noqa: BLE001
                    ctx.exc(e)
                ctx.ev(); ctx.count("immut_calls"); ctx.key(("immut", tname, name))
                if fp(o) != before:
                    ctx.V(f"C12:immutability:{tname}.{name}", f"{tname}.{name}{tuple(repr(a) for a in args)} changed the receiver's state ({o!r})", {"kind": "immut", "type": tname, "member": name, "value": repr(o)})
                if [fp(a) for a in args] != bargs:
                    ctx.V(f"C12:immutability:arg-of-{tname}.{name}", f"{tname}.{name} changed an argument's state", {"kind": "immut", "type": tname, "member": name})
    # augmented assignment: `x op= y` on a value type must leave the object that x referred to unchanged (and shared constants intact)
    import operator
    from pyoda_time import Period
    OPS = [("+=", operator.iadd), ("-=", operator.isub), ("*=", operator.imul), ("/=", operator.itruediv), ("|=", operator.ior), ("&=", operator.iand)]
    shared = {"Period.zero": Period.zero, "Duration.zero": Duration.zero, "Offset.zero": Offset.zero, "LocalTime.midnight": LocalTime.midnight}
    shared_fp = {k: fp(v) for k, v in shared.items()}
    for it in range(max(40, iters // 3)):
        P = pool(); P2 = pool()
        for tname in TYPES:
            a = P[tname]
            for opn, op in OPS:
                for b in (P2.get(tname), P2["Duration"], P2["Period"], P2["PeriodT"], P2["int"], P2["Offset"]):
                    before = fp(a); alias = a
                    try:
                        r = op(a, b)
                    except Exception as e:  # noqa: BLE001
                        ctx.exc(e); continue
                    ctx.ev(); ctx.count("immut_calls"); ctx.key(("immut", tname, opn))
                    if fp(alias) != before:
                        ctx.V(f"C12:immutability:{tname}{opn}", f"{tname} `x {opn} y` changed the object x referred to in place (x was {before!r}, y={b!r})", {"kind": "immut", "type": tname, "member": opn})
        for sname in ("Period.zero",):
            z0 = Period.between(P["LocalDate"], P["LocalDate"])   # hands out the shared zero
            try:
                z0 += P2["Period"]
            except Exception as e:  # noqa: BLE001
                ctx.exc(e)
        for k, v in shared.items():
            if fp(v) != shared_fp[k]:
                ctx.V(f"C12:immutability:shared-constant:{k}", f"the shared constant {k} changed value after augmented assignments on values equal to it", {"kind": "immut", "type": k, "member": "shared"})
                shared_fp[k] = fp(v)
    # a copy of a value (copy / deepcopy / pickle round trip), where the type supports the protocol at all, is the same value
    import copy
    import pickle
    PROTOS = (("copy", copy.copy), ("deepcopy", copy.deepcopy), ("pickle", lambda x: pickle.loads(pickle.dumps(x))), ("pickle-p2", lambda x: pickle.loads(pickle.dumps(x, protocol=2))))
    for it in range(max(30, iters // 4)):
        P = pool()
        extra = {"Instant.max": Instant.max_value, "Instant.min": Instant.min_value, "Duration.max": Duration.max_value, "Interval-open": Interval(None, P["Instant"]), "Interval-open-end": Interval(P["Instant"], None)}
        for tname, o in list(P.items()) + list(extra.items()):
            if tname in ("int", "IsoDayOfWeek", "CalendarSystem", "DateTimeZone"): continue
            before = fp(o)
            for pn, f in PROTOS:
                try:
                    w = f(o)
                except Exception as e:  # noqa: BLE001  (protocol not supported by this type: not part of the property)
                    ctx.exc(e); ctx.count("copy_protocol_unsupported"); continue
                ctx.ev(); ctx.count("copies"); ctx.key(("copy", tname, pn))
                try:
                    same = (w == o) and (o == w) and not (w != o)
                    if same and getattr(type(o), "__hash__", None) is not None: same = hash(w) == hash(o)
                    if same and hasattr(o, "compare_to") and tname not in ("Interval-open", "Interval-open-end"): same = o.compare_to(w) == 0
                except Exception as e:  # noqa: BLE001
                    ctx.exc(e); same = False
                if not same:
                    ctx.V(f"C12:copy-differs:{tname.split('.')[0].split('-')[0]}:{pn.split('-')[0]}", f"{pn} of {tname} {o!r} gives {w!r}, which is not equal / hash-equal to the original", {"kind": "immut", "type": tname, "member": pn})
                if fp(o) != before:
                    ctx.V(f"C12:immutability:{tname}:{pn}", f"{pn} changed the original {tname}", {"kind": "immut", "type": tname, "member": pn})
    ctx.sample({"kind": "immut", "types": len(TYPES), "iters": iters}, cap=8)


def run(ctx, shard):
    for k in ("pairs", "triples", "cross_calendar_order", "unrelated_order", "immut_calls"):
        ctx.counters.setdefault(k, 0)
    if shard["part"] == "laws":
        laws(ctx, shard["rounds"])
    else:
        immut(ctx, shard["iters"])


def replay(ctx, case):
    # pools are seeded: re-run the shard kind that produced the case (the replay file carries tier and seed)
    ctx.distinct(2)
    if "part" in ctx.shard:
        run(ctx, ctx.shard)      # original shard restored by the runner: the same seeded pools are rebuilt
    elif case.get("kind") == "immut":
        immut(ctx, 120)
    else:
        laws(ctx, 2)
