"""C17 child: in a FRESH interpreter, touch the built-in ISO patterns (and their standard letters) in the order given and print what each writes.

usage: python -m vf.props.c17_child '<json list of accessor names>'"""
import json
import sys


def accessors():
    from pyoda_time import Instant, LocalDate, LocalDateTime, LocalTime, Offset
    from pyoda_time import text as T
    from pyoda_time._compatibility._culture_info import CultureInfo
    inv = CultureInfo.invariant_culture
    d = LocalDate(2021, 3, 4); t = LocalTime(5, 6, 7).plus_nanoseconds(120_000_000); ldt = d.at(t)
    i = Instant.from_utc(2021, 3, 4, 5, 6, 7).plus_nanoseconds(120_000_000); o = Offset.from_hours_and_minutes(5, 30)
    A = {}
    def fp(get, v):
        """format, then parse the text back with the same pattern: text plus what the parse gives (formatted again, so that it is JSON-able)."""
        def run():
            p = get(); text = p.format(v); r = p.parse(text)
            return [text, "parsed:" + (p.format(r.value) if r.success else "FAILED")]
        return run
    for nm in ("iso", "full_roundtrip"):
        A[f"LocalDatePattern.{nm}"] = fp(lambda nm=nm: getattr(T.LocalDatePattern, nm), d)
    for nm in ("extended_iso", "long_extended_iso", "general_iso", "variable_precision_iso", "hour_minute_iso", "hour_iso"):
        A[f"LocalTimePattern.{nm}"] = fp(lambda nm=nm: getattr(T.LocalTimePattern, nm), t)
    for nm in ("general_iso", "extended_iso", "bcl_round_trip", "full_roundtrip", "full_roundtrip_without_calendar", "variable_precision_iso", "date_hour_minute_iso", "date_hour_iso"):
        A[f"LocalDateTimePattern.{nm}"] = fp(lambda nm=nm: getattr(T.LocalDateTimePattern, nm), ldt)
    for nm in ("general", "extended_iso"):
        A[f"InstantPattern.{nm}"] = fp(lambda nm=nm: getattr(T.InstantPattern, nm), i)
    for nm in ("general_invariant", "general_invariant_with_z"):
        A[f"OffsetPattern.{nm}"] = fp(lambda nm=nm: getattr(T.OffsetPattern, nm), o)
    for cls, letters, v in ((T.LocalDatePattern, "Rr", d), (T.LocalTimePattern, "oOr", t), (T.LocalDateTimePattern, "oOrRsS", ldt), (T.InstantPattern, "g", i)):
        for L in letters:
            A[f"{cls.__name__}.create({L!r})"] = fp(lambda cls=cls, L=L: cls.create(L, inv), v)
    A["str(LocalDate)"] = lambda: str(d); A["str(Instant)"] = lambda: str(i); A["str(LocalDateTime)"] = lambda: str(ldt); A["str(LocalTime)"] = lambda: str(t)
    return A


def main():
    order = json.loads(sys.argv[1])
    A = accessors()
    out = {}
    for nm in (order or sorted(A)):
        try:
            out[nm] = ["ok", A[nm]()]
        except Exception as e:  # noqa: BLE001
            out[nm] = ["raised", f"{type(e).__name__}: {e}"[:160]]
    out["__optimize__"] = ["ok", sys.flags.optimize]
    print("@@C17CHILD " + json.dumps(out))


if __name__ == "__main__":
    main()
