"""C06 — zones behave exactly as an independent reading of the database bytes says (DESIGN §3 C06)."""
from __future__ import annotations

import os

LEVEL = "exploration"
RULE = ("both real NZD files (bundled Tzdb.nzd, tests/test_data/Tzdb2013bFromNodaTime1.1.nzd): for EVERY id the real zone is walked (quick: precalculated "
        "part complete + tail to 2100 + seeded far windows + the last years; thorough: complete to the end of time) and compared interval by "
        "interval (start, end, wall, savings, name) with the independent reader + yearly-rule evaluator; ids, version, alias maps, fixed UTC+-hh[:mm[:ss]] "
        "ids, validate(); distinct = (file, zone, interval) compared")
ASSUMPTIONS = ["NZD container format as implemented by vf/models/nzd_ref.py (independent of the reader under test)", "yearly rules evaluated with datetime.date arithmetic (vf/models/tzrules_ref.py)"]
MIN_NT = {"quick": 20000, "thorough": 500000}
REQUIRED = {"any": ["zones_compared", "intervals_compared", "reference_probes", "ids_checked", "alias_checks", "fixed_id_checks", "validate_calls"]}
EXHAUSTIVE = {"thorough": True}

NS = 10**9
DAY = 86400 * NS
Y2100 = 4102444800 * NS
FILES = ("bundled", "2013b")


def file_bytes(which):
    import pyoda_time
    root = os.path.dirname(os.path.abspath(pyoda_time.__file__))
    p = os.path.join(root, "time_zones", "Tzdb.nzd") if which == "bundled" else os.path.join(os.path.dirname(root), "tests", "test_data", "Tzdb2013bFromNodaTime1.1.nzd")
    if not os.path.exists(p):
        return None
    return open(p, "rb").read()


def shards(tier, seed):
    k = 12 if tier == "quick" else 48
    out = []
    for f in FILES:
        if file_bytes(f) is None:
            continue
        out += [{"name": f"{f}:{i}", "file": f, "i": i, "k": k} for i in range(k)]
        out.append({"name": f"{f}:meta", "file": f, "meta": True})
    return out


def provider_for(which, data):
    import io
    from pyoda_time import DateTimeZoneProviders
    from pyoda_time.time_zones import DateTimeZoneCache
    from pyoda_time.time_zones._tzdb_date_time_zone_source import TzdbDateTimeZoneSource
    if which == "bundled":
        return DateTimeZoneProviders.tzdb, TzdbDateTimeZoneSource.default
    src = TzdbDateTimeZoneSource.from_stream(io.BytesIO(data))
    return DateTimeZoneCache(src), src


def cmp_logs(ctx, which, zid, got, exp, what):
    """got: walked log (seconds); exp: reference (ms). Compare (start, end, wall, savings, name)."""
    g = [(r[0], r[1], r[2] * 1000, r[3] * 1000, r[5]) for r in got]
    ctx.counters["intervals_compared"] += len(g); ctx.evaluations += len(g); ctx.nt_extra += len(g)
    if g == exp:
        return True
    k = next((i for i, (a, b) in enumerate(zip(g, exp)) if a != b), min(len(g), len(exp)))
    a = g[k] if k < len(g) else None; b = exp[k] if k < len(exp) else None
    field = "count"
    if a is not None and b is not None:
        field = next(n for n, x, y in zip(("start", "end", "wall", "savings", "name"), a, b) if x != y)
    section = "tail" if what != "precalc" else "precalculated"
    ctx.V(f"C06:interval-differs:{field}", f"{which}:{zid} ({what}): interval #{k} is {a}; the independent reading of the file gives {b} (zone has {len(g)} intervals, reference {len(exp)})",
          {"kind": "zone", "file": which, "zone": zid, "index": k}, a, b)
    return False


def probe_against_reference(ctx, which, zid, zone, exp, rng, n):
    """Random-order point queries judged against the reference interval list (not against the walk)."""
    import bisect
    from vf import gen, zonewalk
    starts = [(-10**40 if e[0] is None else e[0]) for e in exp]
    sel = list(range(len(exp))) if len(exp) <= n else sorted(rng.sample(range(len(exp)), n))
    pts = []
    for i in sel:
        s, e = exp[i][0], exp[i][1]
        if s is not None: pts += [s - 1, s]
        if e is not None: pts.append(e - 1)
        lo_ = gen.INST_MIN_NS if s is None else s; hi_ = gen.INST_MAX_NS if e is None else e - 1
        if lo_ < hi_: pts.append(rng.randint(lo_, hi_))
    rng.shuffle(pts)
    last_end = exp[-1][1]
    for p in pts:
        if not gen.INST_MIN_NS <= p <= gen.INST_MAX_NS or (last_end is not None and p >= last_end):
            continue
        j = bisect.bisect_right(starts, p) - 1
        want = exp[j]
        r = zonewalk.rec_of(zone.get_zone_interval(gen.ns_inst(p)))
        got = (r[0], r[1], r[2] * 1000, r[3] * 1000, r[5])
        ctx.counters["reference_probes"] += 1; ctx.evaluations += 1
        if got != want:
            ctx.V("C06:probe-differs-from-reference", f"{which}:{zid}: get_zone_interval({p}) = {got}; the independent reading of the file gives {want}",
                  {"kind": "zone", "file": which, "zone": zid, "instant": p}, got, want)


def check_zone(ctx, which, prov, ref, zid, full, rng):
    from vf import gen, zonewalk
    from vf.models import tzrules_ref as T
    canonical = ref["idmap"].get(zid, zid)
    z = ref["zones"].get(canonical)
    if z is None:
        ctx.V("C06:alias-target-missing", f"{which}: id {zid} maps to {canonical}, which the file does not define", {"kind": "zone", "file": which, "zone": zid}); return
    zone = prov[zid]
    ctx.counters["zones_compared"] += 1
    if zone.id != zid:
        ctx.V("C06:zone-id", f"{which}: provider[{zid!r}].id = {zone.id!r}", {"kind": "zone", "file": which, "zone": zid}, zone.id, zid)
    if z["fixed"]:
        log, _ = zonewalk.walk(zone)
        cmp_logs(ctx, which, zid, log, T.expected_intervals(z, None, zid), "fixed")
        return
    seam = z["periods"][-1][1]
    has_tail = z["tail"] is not None
    if full or not has_tail:
        log, _ = zonewalk.walk(zone)
        exp_all = T.expected_intervals(z)
        cmp_logs(ctx, which, zid, log, exp_all, "complete")
        probe_against_reference(ctx, which, zid, zone, exp_all, rng, 400 if full else 80)
        return
    lim = max(Y2100, (seam if isinstance(seam, int) else 0) + 3 * 366 * DAY)
    log, _ = zonewalk.walk(zone, None, lim)
    exp = T.expected_intervals(z, lim)
    # both lists stop at the first interval ending after lim
    exp = exp[:len([e for e in exp if e[0] is None or e[0] <= lim])]
    n = min(len(log), len(exp))
    cmp_logs(ctx, which, zid, log[:n], exp[:n], "to-2100")
    probe_against_reference(ctx, which, zid, zone, exp[:n], rng, 80)
    if abs(len(log) - len(exp)) > 1:
        ctx.V("C06:interval-differs:count", f"{which}:{zid}: {len(log)} intervals walked to 2100, reference has {len(exp)}", {"kind": "zone", "file": which, "zone": zid})
    last = gen.INST_MAX_NS - 4 * 366 * DAY
    for s0 in [rng.randint(lim, last - 5 * 366 * DAY) for _ in range(4)] + [last]:
        until = None if s0 == last else s0 + 3 * 366 * DAY
        l2, _ = zonewalk.walk(zone, s0, until)
        e2 = T.tail_intervals(z["tail"], s0, gen.INST_MAX_NS if until is None else until)
        if until is not None:
            m = min(len(l2), len(e2)); l2, e2 = l2[:m], e2[:m]
        cmp_logs(ctx, which, zid, l2, e2, f"tail-window@{s0}")


def run_meta(ctx, which, data, ref):
    from pyoda_time import DateTimeZone, Offset
    from pyoda_time.time_zones import DateTimeZoneNotFoundError
    prov, src = provider_for(which, data)
    canon = sorted(ref["zones"]); aliases = sorted(ref["idmap"])
    exp_ids = sorted(set(canon) | set(aliases))
    got_ids = list(prov.ids)
    ctx.ev(); ctx.counters["ids_checked"] += len(got_ids); ctx.nt_extra += len(got_ids)
    if got_ids != exp_ids:
        missing = sorted(set(exp_ids) - set(got_ids))[:5]; extra = sorted(set(got_ids) - set(exp_ids))[:5]
        ctx.V("C06:id-list", f"{which}: provider ids differ from sorted(canonical + aliases): missing {missing}, extra {extra}, order ok={sorted(got_ids) == got_ids}", {"kind": "meta", "file": which}, len(got_ids), len(exp_ids))
    if list(src.get_ids()) and sorted(src.get_ids()) != exp_ids:
        ctx.V("C06:source-id-list", f"{which}: source.get_ids() differs from the file's ids", {"kind": "meta", "file": which})
    ctx.ev()
    if src.tzdb_version != ref["version"] or ref["version"] not in prov.version_id or ref["version"] not in src.version_id:
        ctx.V("C06:version", f"{which}: version ids {src.tzdb_version!r} / {prov.version_id!r}; the file says {ref['version']!r}", {"kind": "meta", "file": which})
    cmap = dict(src.canonical_id_map)
    for a in exp_ids:
        ctx.counters["alias_checks"] += 1; ctx.ev()
        want = ref["idmap"].get(a, a)
        if cmap.get(a) != want:
            ctx.V("C06:canonical-id-map", f"{which}: canonical_id_map[{a!r}] = {cmap.get(a)!r}; the file maps it to {want!r}", {"kind": "meta", "file": which, "id": a}, cmap.get(a), want)
    if set(cmap) != set(exp_ids):
        ctx.V("C06:canonical-id-map", f"{which}: canonical_id_map keys differ from the file's ids", {"kind": "meta", "file": which})
    al = {k: sorted(v) for k, v in dict(src.aliases).items()}
    exp_al = {}
    for a, c in ref["idmap"].items():
        exp_al.setdefault(c, []).append(a)
    exp_al = {k: sorted(v) for k, v in exp_al.items()}
    if {k: v for k, v in al.items() if v} != exp_al:
        bad = [k for k in set(al) | set(exp_al) if al.get(k, []) != exp_al.get(k, [])][:3]
        ctx.V("C06:aliases", f"{which}: aliases mapping differs from the file for {bad}", {"kind": "meta", "file": which})
    # alias data equals canonical data under the alias id (sampled interval comparison is done per zone; here identity of behaviour at probe instants)
    from vf import gen, zonewalk
    rng = ctx.rng
    for a in rng.sample(aliases, min(len(aliases), 60)):
        za, zc = prov[a], prov[ref["idmap"][a]]
        ctx.counters["alias_checks"] += 1; ctx.ev()
        for p in [rng.randint(-4 * 10**18, 4 * 10**18) for _ in range(6)]:
            ra, rc = zonewalk.rec_of(za.get_zone_interval(gen.ns_inst(p))), zonewalk.rec_of(zc.get_zone_interval(gen.ns_inst(p)))
            nameless = ref["zones"][ref["idmap"][a]].get("fixed") and ref["zones"][ref["idmap"][a]].get("name") is None
            if (ra[:5] != rc[:5]) if nameless else (ra != rc):
                ctx.V("C06:alias-data", f"{which}: alias {a} differs from its canonical zone {ref['idmap'][a]} at {p}", {"kind": "meta", "file": which, "id": a})
        if za.id != a:
            ctx.V("C06:zone-id", f"{which}: provider[{a!r}].id = {za.id!r}", {"kind": "meta", "file": which, "id": a})
    # fixed-offset ids
    good = {"UTC": 0, "UTC+05": 18000, "UTC-03:30": -12600, "UTC+05:30:15": 19815, "UTC+18": 64800, "UTC-18": -64800, "UTC+00:00:01": 1, "UTC-00:30": -1800, "UTC+12:45": 45900}
    for s in [rng.randint(-64800, 64800) for _ in range(30)]:
        a = abs(s); txt = "UTC" + ("+" if s >= 0 else "-") + f"{a // 3600:02d}" + (f":{a // 60 % 60:02d}" if a % 3600 else "") + (f":{a % 60:02d}" if a % 60 else "")
        if s != 0 or True:
            good[txt] = s
    for txt, s in good.items():
        ctx.counters["fixed_id_checks"] += 1; ctx.ev(); ctx.key(("fixed-id", txt.count(":"), (s > 0) - (s < 0)))
        if txt in exp_ids and txt != "UTC":
            continue
        for nm, fn in (("[]", lambda: prov[txt]), ("get_zone_or_none", lambda: prov.get_zone_or_none(txt))):
            try:
                z = fn()
            except Exception as e:  # noqa: BLE001
                ctx.exc(e); ctx.V("C06:fixed-id-rejected", f"{which}: provider{nm}({txt!r}) raised {e!r}", {"kind": "meta", "file": which, "id": txt}, repr(e)); continue
            if z is None or z.get_utc_offset(gen.ns_inst(0)).seconds != s or z.get_utc_offset(gen.ns_inst(10**18)).seconds != s or z.min_offset.seconds != s:
                ctx.V("C06:fixed-id-offset", f"{which}: provider{nm}({txt!r}) = {z!r}; expected a fixed zone of {s} s", {"kind": "meta", "file": which, "id": txt})
    for txt in ("UTC+5", "UTC+25", "UTC+05:60", "utc+05", "UTC+05:3", "UTC+19", "UTC 05", "UTC+0530", "UTC+05:30:60", "UTC+", "GMT+05", "UTC+05:", "UTC+05:30:", "UTC++05", "Not/AZone", ""):
        ctx.counters["fixed_id_checks"] += 1; ctx.ev(); ctx.key(("bad-id", txt))
        try:
            z = prov.get_zone_or_none(txt)
            if z is not None:
                ctx.V("C06:malformed-fixed-id-accepted", f"{which}: get_zone_or_none({txt!r}) returned {z!r}", {"kind": "meta", "file": which, "id": txt})
        except (ValueError,) as e:
            ctx.exc(e)
        try:
            z = prov[txt]
            ctx.V("C06:malformed-fixed-id-accepted", f"{which}: provider[{txt!r}] returned {z!r}", {"kind": "meta", "file": which, "id": txt})
        except (DateTimeZoneNotFoundError, ValueError) as e:
            ctx.exc(e)
        except Exception as e:  # noqa: BLE001
            ctx.exc(e); ctx.V("C06:malformed-id-unexpected-error", f"{which}: provider[{txt!r}] raised {e!r}", {"kind": "meta", "file": which, "id": txt}, repr(e))
    for nth in (1, 2, 3):          # the file passes its own validation - every time it is asked
        ctx.counters["validate_calls"] += 1; ctx.ev()
        try:
            src.validate()
        except Exception as e:  # noqa: BLE001
            ctx.exc(e); ctx.V("C06:validate" if nth == 1 else "C06:validate-repeated", f"{which}: source.validate() (call #{nth} on the same source) raised {e!r}", {"kind": "meta", "file": which}, repr(e)); break
    ctx.sample({"file": which, "version": ref["version"], "canonical": len(canon), "aliases": len(aliases), "ids": len(exp_ids)})


def run(ctx, shard):
    from vf.models import nzd_ref
    for k in REQUIRED["any"]:
        ctx.counters.setdefault(k, 0)
    which = shard["file"]
    data = file_bytes(which)
    ref = nzd_ref.load(data)
    if shard.get("meta"):
        run_meta(ctx, which, data, ref); return
    ids = sorted(set(ref["zones"]) | set(ref["idmap"]))
    if shard["i"] % 2 == 1:
        # every other shard first loads the OTHER database file in the same process and fetches the same ids from it: what a zone of this file
        # says must not depend on another file having been read before
        other = [f for f in FILES if f != which and file_bytes(f) is not None]
        if other:
            try:
                oprov, _o = provider_for(other[0], file_bytes(other[0]))
                for zid in ids[shard["i"]::shard["k"]]:
                    try:
                        oprov[zid]
                    except Exception as e:  # noqa: BLE001  (the other file may not have that id)
                        ctx.exc(e)
                ctx.count("other_file_preloaded")
            except Exception as e:  # noqa: BLE001
                ctx.exc(e)
    prov, _ = provider_for(which, data)
    full = ctx.tier == "thorough"
    for zid in ids[shard["i"]::shard["k"]]:
        is_alias = zid in ref["idmap"]
        check_zone(ctx, which, prov, ref, zid, full and not is_alias, ctx.rng)
    z0 = ids[shard["i"]]
    ctx.sample({"file": which, "zone": z0, "reference_periods": len(ref["zones"].get(ref["idmap"].get(z0, z0), {}).get("periods", []))})


def replay(ctx, case):
    from vf.models import nzd_ref
    ctx.distinct(2)
    for k in REQUIRED["any"]:
        ctx.counters.setdefault(k, 0)
    which = case.get("file", "bundled")
    data = file_bytes(which); ref = nzd_ref.load(data)
    if case.get("kind") == "zone":
        prov, _ = provider_for(which, data)
        check_zone(ctx, which, prov, ref, case["zone"], True, ctx.rng)
    else:
        run_meta(ctx, which, data, ref)
