"""C01 child: in a FRESH interpreter, obtain calendars through the factory spellings that take plain numbers (as first use in the process),
then run a small day <-> date round trip and field check on each, and print the problems found.

usage: python -m vf.props.c01_child <seed>"""
import json
import random
import sys


def main():
    from pyoda_time import CalendarSystem, LocalDate
    rng = random.Random(int(sys.argv[1]))
    out = []
    cals = []
    # plain ints / int-valued enums' values, in seeded order, BEFORE any other access to these calendars
    specs = [("hebrew", (1,)), ("hebrew", (2,))] + [("islamic", (l, e)) for l in (1, 2, 3, 4) for e in (1, 2)]
    rng.shuffle(specs)
    for kind, args in specs:
        try:
            cal = CalendarSystem.get_hebrew_calendar(*args) if kind == "hebrew" else CalendarSystem.get_islamic_calendar(*args)
            cals.append((f"{kind}{args}", cal))
        except Exception:  # noqa: BLE001   (this spelling is not accepted by the tree: nothing to judge)
            pass
    iso = CalendarSystem.iso
    for label, cal in cals:
        n_ok = 0
        for _ in range(120):
            y = rng.randint(cal.min_year + 1, cal.max_year - 1); m = rng.randint(1, cal.get_months_in_year(y)); d = rng.randint(1, cal.get_days_in_month(y, m))
            try:
                x = LocalDate(y, m, d, cal)
                back = x.with_calendar(iso).with_calendar(cal)
                nxt = x.plus_days(1); prv = nxt.plus_days(-1)
                if (back.year, back.month, back.day) != (y, m, d) or prv != x or not (x < nxt) or x.day_of_year != sum(cal.get_days_in_month(y, k) for k in _months_before(cal, y, m)) + d:
                    out.append([label, "roundtrip", [y, m, d], [back.year, back.month, back.day], x.day_of_year]); break
                n_ok += 1
            except Exception as e:  # noqa: BLE001
                out.append([label, "raised", [y, m, d], repr(e)[:100]]); break
        # the registered singleton for the same id behaves the same
        same = CalendarSystem.for_id(cal.id)
        if same is not cal:
            out.append([label, "not-the-registered-singleton", cal.id])
    print("@@C01CHILD " + json.dumps({"problems": out, "calendars": len(cals)}))


def _months_before(cal, y, m):
    """Month numbers that precede month m within year y in this calendar's own order (Hebrew scriptural years start with month 7)."""
    from pyoda_time import LocalDate
    first = LocalDate(y, m, 1, cal)
    res = []
    for k in range(1, cal.get_months_in_year(y) + 1):
        if k != m and LocalDate(y, k, 1, cal) < first:
            res.append(k)
    return res


if __name__ == "__main__":
    main()
