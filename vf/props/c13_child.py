"""Child process for C13: executes one query history (sequential or multi-threaded) in a FRESH interpreter and prints
the answers as JSON.  python -m vf.props.c13_child <spec.json>

spec: {"mode": "seq"|"conc", "queries": [...], "orders": [[idx...], ...], "inject": bool, "seed": int, "p": float}
"""
from __future__ import annotations

import json
import sys
import threading
import time

NS = 10**9
DAY = 86400 * NS

_shadow = {"evals": 0, "mismatches": [], "unavailable": []}
_shadow_lock = threading.Lock()


def install_shadows():
    """(a) cache-shadow hooks: a stale cache entry is seen the moment it is served, whatever the history."""
    try:
        from pyoda_time.calendars._year_month_day_calculator import _YearMonthDayCalculator as Y
        orig = Y._get_start_of_year_in_days

        def shadow_year(self, year):
            r = orig(self, year)
            try:
                e = self._calculate_start_of_year_days(year)
            except Exception:  # noqa: BLE001
                return r
            with _shadow_lock:
                _shadow["evals"] += 1
                if r != e and len(_shadow["mismatches"]) < 20:
                    _shadow["mismatches"].append(["year-start-cache", type(self).__name__, year, r, e])
            return r
        Y._get_start_of_year_in_days = shadow_year
    except Exception as e:  # noqa: BLE001
        _shadow["unavailable"].append(f"year-start cache: {e!r}")
    try:
        from pyoda_time.calendars._hebrew_scriptural_calculator import _HebrewScripturalCalculator as H
        nocache = getattr(H, "_HebrewScripturalCalculator__elapsed_days_no_cache")
        orig_e = H.__dict__["_elapsed_days"].__func__
        orig_m = H.__dict__["_days_in_month"].__func__

        def shadow_elapsed(cls, year):
            r = orig_e(cls, year)
            e = nocache(year)
            with _shadow_lock:
                _shadow["evals"] += 1
                if r != e and len(_shadow["mismatches"]) < 20:
                    _shadow["mismatches"].append(["hebrew-elapsed-days-cache", year, r, e])
            return r

        def shadow_month(cls, year, month):
            r = orig_m(cls, year, month)
            if month in (8, 9):
                L = nocache(year + 1) - nocache(year)
                e = (30 if L % 10 == 5 else 29) if month == 8 else (29 if L % 10 == 3 else 30)
                with _shadow_lock:
                    _shadow["evals"] += 1
                    if r != e and len(_shadow["mismatches"]) < 20:
                        _shadow["mismatches"].append(["hebrew-month-length-cache", year, month, r, e])
            return r
        H._elapsed_days = classmethod(shadow_elapsed)
        H._days_in_month = classmethod(shadow_month)
    except Exception as e:  # noqa: BLE001
        _shadow["unavailable"].append(f"hebrew cache: {e!r}")
    try:
        from pyoda_time.time_zones._cached_date_time_zone import _CachedDateTimeZone as C
        orig_z = C.get_zone_interval

        def shadow_zone(self, instant):
            r = orig_z(self, instant)
            try:
                e = self._time_zone.get_zone_interval(instant)
            except Exception:  # noqa: BLE001
                return r
            with _shadow_lock:
                _shadow["evals"] += 1
                if r != e and len(_shadow["mismatches"]) < 20:
                    _shadow["mismatches"].append(["zone-interval-cache", self.id, repr(instant), repr(r), repr(e)])
            return r
        C.get_zone_interval = shadow_zone
    except Exception as e:  # noqa: BLE001
        _shadow["unavailable"].append(f"zone interval cache: {e!r}")
    try:
        from pyoda_time.utility._cache import _Cache
        orig_c = _Cache.get_or_add

        def shadow_cache(self, key):
            r = orig_c(self, key)
            with _shadow_lock:
                _shadow["evals"] += 1
            # the value must belong to the key: for format infos the culture name, for patterns the pattern text
            name = getattr(r, "culture_info", None)
            if name is not None and hasattr(key, "name") and getattr(name, "name", None) != key.name:
                with _shadow_lock:
                    _shadow["mismatches"].append(["value-cache", repr(key), repr(r)])
            return r
        _Cache.get_or_add = shadow_cache
    except Exception as e:  # noqa: BLE001
        _shadow["unavailable"].append(f"_Cache: {e!r}")


class Exec:
    def __init__(self):
        self.cal = {}
        self.zone = {}
        self.cultures = {}
        self.clock = threading.Lock()

    def culture(self, name):
        """One CultureInfo object per name, shared by all threads (as an application would hold it)."""
        from pyoda_time._compatibility._culture_info import CultureInfo
        # read-only culture objects are the ones whose format info is cached and shared (CultureInfo(name) is writable and gets a private one)
        with self.clock:
            c = self.cultures.get(name)
            if c is None:
                c = self.cultures[name] = CultureInfo.get_culture_info(name)
            return c

    def answer(self, q):
        from pyoda_time import CalendarSystem, DateTimeZone, DateTimeZoneProviders, LocalDate, LocalTime
        k = q[0]
        if k == "ymd":
            cal = CalendarSystem.for_id(q[1])
            x = LocalDate._ctor(days_since_epoch=q[2], calendar=cal) if hasattr(LocalDate, "_ctor") else LocalDate(1970, 1, 1).plus_days(q[2]).with_calendar(cal)
            return [x.year, x.month, x.day, x.day_of_week.value, x.day_of_year], None
        if k == "ys":
            cal = CalendarSystem.for_id(q[1])
            x = LocalDate(q[2], 7 if q[1] == "Hebrew Scriptural" else 1, 1, cal)
            d = x._days_since_epoch if hasattr(x, "_days_since_epoch") else None
            return [d, cal.get_days_in_year(q[2]), cal.get_months_in_year(q[2]), [cal.get_days_in_month(q[2], m) for m in range(1, cal.get_months_in_year(q[2]) + 1)]], None
        if k == "zi":
            from pyoda_time import Instant
            z = DateTimeZoneProviders.tzdb[q[1]]
            zi = z.get_zone_interval(Instant.from_unix_time_ticks(0).plus_nanoseconds(q[2]))
            s = (zi.start - Instant.from_unix_time_ticks(0)).to_nanoseconds() if zi.has_start else None
            e = (zi.end - Instant.from_unix_time_ticks(0)).to_nanoseconds() if zi.has_end else None
            return [s, e, zi.wall_offset.seconds, zi.savings.seconds, zi.name], None
        if k == "prov":
            z = DateTimeZoneProviders.tzdb[q[1]]
            return [z.id, z.min_offset.seconds, z.max_offset.seconds], id(z)
        if k == "cal":
            c = CalendarSystem.for_id(q[1])
            return [c.id, c.name, c.min_year, c.max_year], id(c)
        if k == "single":
            if q[1] == "tzdb": o = DateTimeZoneProviders.tzdb
            elif q[1] == "utc": o = DateTimeZone.utc
            else: o = DateTimeZone.for_offset(__import__("pyoda_time").Offset.from_seconds(q[2]))
            return [type(o).__name__, getattr(o, "id", getattr(o, "version_id", ""))], id(o)
        if k == "fmt":
            from pyoda_time._compatibility._culture_info import CultureInfo
            from pyoda_time.text import LocalDatePattern, LocalTimePattern
            culture = CultureInfo.invariant_culture if not q[3] else self.culture(q[3])
            if q[1] == "LocalDate":
                v = LocalDate(1970, 1, 1).plus_days(q[4]); p = LocalDatePattern.create(q[2], culture)
            else:
                v = LocalTime.from_nanoseconds_since_midnight(q[4]); p = LocalTimePattern.create(q[2], culture)
            t = p.format(v)
            r = p.parse(t)
            return [t, r.success and (r.value == v)], None
        if k == "curculture":
            # thread-local culture: set this thread's current culture and format with the *current* culture
            from pyoda_time._compatibility._culture_info import CultureInfo
            from pyoda_time.text import LocalDatePattern
            CultureInfo.current_culture = CultureInfo(q[1]) if q[1] else CultureInfo.invariant_culture
            time.sleep(0)
            t = LocalDatePattern.create_with_current_culture("MMMM").format(LocalDate(2000, q[2], 1))
            return [t, CultureInfo.current_culture.name], None
        raise ValueError(k)


def run_thread(ex, queries, order, out, tid, barrier):
    if barrier is not None:
        try:
            barrier.wait(60)
        except Exception:  # noqa: BLE001
            pass
    for i in order:
        try:
            a, ident = ex.answer(queries[i])
            out.append([i, a, ident, None])
        except BaseException as e:  # noqa: BLE001
            out.append([i, None, None, f"{type(e).__name__}: {str(e)[:100]}"])


def main():
    spec = json.load(open(sys.argv[1]))
    queries = spec["queries"]
    install_shadows()
    ex = Exec()
    res = {"threads": []}
    inj = None
    if spec["mode"] == "seq":
        out = []
        run_thread(ex, queries, spec["orders"][0], out, 0, None)
        res["threads"].append(out)
    else:
        import pyoda_time  # noqa: F401  (import only: lazily initialised singletons must stay untouched until the barrier)
        if spec.get("inject"):
            import importlib

            from vf.monitors.yieldinj import YieldInjector
            mods = []
            for name in spec["modules"]:
                try:
                    mods.append(importlib.import_module(name))
                except Exception:  # noqa: BLE001
                    pass
            inj = YieldInjector(mods, spec["seed"], p=spec.get("p", 0.3))
        sys.setswitchinterval(1e-6)
        T = len(spec["orders"])
        barrier = threading.Barrier(T)
        outs = [[] for _ in range(T)]
        ts = [threading.Thread(target=run_thread, args=(ex, queries, spec["orders"][t], outs[t], t, barrier), daemon=True) for t in range(T)]
        if inj: inj.start()
        try:
            for t in ts: t.start()
            deadline = time.time() + spec.get("watchdog_s", 240)
            for t in ts:
                t.join(max(0.1, deadline - time.time()))
            res["hung"] = [i for i, t in enumerate(ts) if t.is_alive()]
            if res["hung"]:
                # structural evidence for the parent: where is each unfinished thread?
                import linecache
                frames = sys._current_frames()
                res["hung_frames"] = []
                for i in res["hung"]:
                    fr = frames.get(ts[i].ident); top = None
                    while fr is not None and top is None:
                        if "/pyoda_time/" in fr.f_code.co_filename.replace("\\", "/"):
                            top = [fr.f_code.co_filename.split("/pyoda_time/")[-1], fr.f_code.co_name, fr.f_lineno, linecache.getline(fr.f_code.co_filename, fr.f_lineno).strip()]
                        fr = fr.f_back
                    res["hung_frames"].append(top)
        finally:
            if inj: inj.stop()
        res["threads"] = outs
    if inj:
        res["inj"] = inj.stats()
    res["shadow"] = _shadow
    sys.stdout.write("@@CHILD " + json.dumps(res, default=repr) + "\n")


if __name__ == "__main__":
    main()
