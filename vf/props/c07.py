"""C07 — formatting then parsing with the same pattern returns the original value (DESIGN §3 C07)."""
from __future__ import annotations

LEVEL = "exploration"
RULE = ("patterns BUILT from field lists for 7 types (padded/unpadded numerics, f/F fractions incl. optional-separator forms, 12/24 h with am/pm, text months/days, "
        "eras, calendar field, embedded ld<>/lt<>, quoted/escaped literals) x invariant + seeded ICU cultures x every calendar; values representable by the "
        "chosen fields, boundary biased; all standard single-letter patterns; built-in round-trip/ISO patterns for every value; idempotence of format.parse on "
        "the pattern's own output; determinism; for padded numeric-only patterns every successfully parsed mutant text must re-format to itself; "
        "distinct key = (type, pattern shape, culture, outcome class)")
ASSUMPTIONS = ["generator rules of DESIGN §3 C07 decide which values a pattern can represent", "culture data as loaded from ICU on this machine"]
MIN_NT = {"quick": 2000, "thorough": 20000}
REQUIRED = {"any": ["custom_roundtrips", "standard_patterns", "builtin_roundtrips", "idempotence", "determinism", "reformat_of_parsed_mutants", "case_length_patterns", "modifier_chains"]}

DAY = 86400 * 10**9
TYPES = ["LocalTime", "LocalDate", "LocalDateTime", "Offset", "Duration", "AnnualDate", "Instant"]


def shards(tier, seed):
    q = tier == "quick"
    out = []
    for t in TYPES:
        for i in range(2 if q else 12):
            out.append({"name": f"{t}:{i}", "type": t, "cultures": 14 if q else 24, "patterns": 90 if q else 160})
    out.append({"name": "builtin", "type": "builtin", "n": 1500 if q else 30000})
    out.append({"name": "name-prefix-cultures", "type": "prefix", "limit": 30 if q else None})
    out += [{"name": f"standard:{i}", "type": "standard", "cultures": 25 if q else None, "i": i, "k": 2 if q else 8} for i in range(2 if q else 8)]
    return out


def V(ctx, k, what, case, obs=None, exp=None):
    ctx.V(f"C07:{k}", what, case, obs, exp)


def srepr(v):
    """repr() that cannot raise: LocalDate/LocalDateTime repr goes through culture patterns, which raise for month numbers without a name."""
    try:
        return repr(v)
    except Exception:  # noqa: BLE001
        try:
            return f"<{type(v).__name__} {v.calendar.id} {v.year}-{v.month}-{v.day}>"
        except Exception:  # noqa: BLE001
            return f"<{type(v).__name__}>"


def check_roundtrip(ctx, tname, p, pt, cname, value, representable, mon, info=None):
    """(a)/(c1)/(d) for one (pattern, value)."""
    from vf.ctx import exc_key
    case = {"kind": "rt", "type": tname, "pattern": pt, "culture": cname, "value": srepr(value)}
    ctx.ev(); ctx.counters[mon] += 1
    try:
        t = p.format(value)
    except Exception as e:  # noqa: BLE001
        ctx.exc(e); V(ctx, f"format-raised:{tname}:{exc_key(e)}", f"{tname} pattern {pt!r} ({cname}): format({srepr(value)}) raised {e!r}", case, repr(e)); return None
    try:
        r = p.parse(t)
    except Exception as e:  # noqa: BLE001
        ctx.exc(e); V(ctx, f"parse-raised:{tname}:{exc_key(e)}", f"{tname} pattern {pt!r} ({cname}): parse({t!r}) raised {e!r}", case, repr(e)); return t
    if not r.success:
        if representable:
            V(ctx, f"own-output-rejected:{tname}", f"{tname} pattern {pt!r} ({cname}): formatted {srepr(value)} as {t!r}, which the same pattern fails to parse: {str(r.exception)[:140]}", case, t)
        return t
    v2 = r.value
    if representable and v2 != value:
        V(ctx, f"roundtrip:{tname}", f"{tname} pattern {pt!r} ({cname}): {srepr(value)} -> {t!r} -> {srepr(v2)}", case, srepr(v2), srepr(value)); return t
    ctx.counters["idempotence"] += 1
    try:
        t2 = p.format(v2)
    except Exception as e:  # noqa: BLE001
        ctx.exc(e); return t
    if t2 != t and not representable and tname in ("Offset", "Duration") and t2.lstrip("+-") == t.lstrip("+-") and set(t.lstrip("+-")) <= set("0:., ;Z") | set(t2) and v2 == type(v2).zero:
        ctx.counters["note:negative-zero-text"] += 1   # a value truncated to zero by the pattern keeps its sign in the text; zero has none: not judged
    elif t2 != t:
        V(ctx, f"reformat-unstable:{tname}", f"{tname} pattern {pt!r} ({cname}): text {t!r} parses to {srepr(v2)}, which formats as {t2!r}", case, t2, t)
    return t


def determinism(ctx, tname, P, pt, culture, p, value, t):
    ctx.counters["determinism"] += 1
    try:
        a = P.create(pt, culture).format(value)
        b = p.with_culture(culture).format(value)
    except Exception as e:  # noqa: BLE001
        ctx.exc(e); return
    if a != t or b != t:
        V(ctx, f"nondeterministic:{tname}", f"{tname} pattern {pt!r} ({culture.name}): the same value formats as {t!r}, {a!r} (fresh pattern) and {b!r} (with_culture)",
          {"kind": "det", "type": tname, "pattern": pt, "culture": culture.name})


MUT_ALPH = list("0123456789:/-.+ ,TZ\0xa") + ["00", "\0junk", " "]


def mutants(rng, t, n):
    out = set()
    for _ in range(n):
        s = list(t)
        if not s: break
        i = rng.randrange(len(s)); op = rng.randrange(5)
        if op == 0: del s[i]
        elif op == 1: s.insert(i, s[i])
        elif op == 2 and len(s) > 1:
            j = min(i + 1, len(s) - 1); s[i], s[j] = s[j], s[i]
        elif op == 3: s[i] = rng.choice(MUT_ALPH)
        else: s.insert(i, rng.choice(MUT_ALPH))
        out.add("".join(s))
    out |= {t + "\0", t + "\0junk", t + " ", " " + t, t + "0", "0" + t, t.upper(), t.lower()}
    out.discard(t)
    return out


def reformat_parsed_mutants(ctx, tname, p, pt, cname, t, rng):
    """(c2) for padded numeric-only patterns: any text the pattern accepts must re-format to itself (case-insensitively)."""
    for m in mutants(rng, t, 12):
        ctx.counters["reformat_of_parsed_mutants"] += 1; ctx.ev()
        try:
            r = p.parse(m)
            if not r.success:
                continue
            t2 = p.format(r.value)
        except Exception as e:  # noqa: BLE001   (escapes are C08's subject)
            ctx.exc(e); continue
        if ";" in pt and t2.casefold().replace(",", ".") == m.casefold().replace(",", "."):
            ctx.counters["note:comma-for-semicolon"] += 1   # ';' accepts '.' or ',' and formats '.': documented alternative form
        elif t2.casefold() != m.casefold() and tname == "Offset" and r.value == type(r.value).zero and t2.lstrip("+-") == m.lstrip("+-"):
            ctx.counters["note:negative-zero-text"] += 1
        elif t2.casefold() != m.casefold():
            cls = "nul-terminated-text-accepted" if "\0" in m else "accepted-text-not-reproduced"
            V(ctx, f"{cls}:{tname}", f"{tname} pattern {pt!r} ({cname}, fixed-width numeric fields only): text {m!r} parses successfully but re-formats as {t2!r}",
              {"kind": "c2", "type": tname, "pattern": pt, "culture": cname, "text": m}, t2, m)


def run_type(ctx, tname, n_cult, n_pat):
    from pyoda_time import CalendarSystem
    from pyoda_time.text import InvalidPatternError
    from vf import gen, textgen as G
    from vf.ctx import exc_key
    rng = ctx.rng
    P = G.pattern_class(tname)
    cals = list(gen.calendars())
    for culture in G.cultures(rng, n_cult):
        try:
            fi = G.fmt_info(culture)
        except Exception as e:  # noqa: BLE001
            ctx.exc(e); continue
        for _ in range(n_pat):
            cal = CalendarSystem.iso if rng.random() < 0.4 else rng.choice(cals)
            try:
                if tname == "LocalTime": pt, info = G.gen_time(rng, fi)
                elif tname == "LocalDate": pt, info = G.gen_date(rng, fi, cal)
                elif tname == "LocalDateTime": pt, info = G.gen_datetime(rng, fi, cal)
                elif tname == "Offset": pt, info = G.gen_offset(rng, fi)
                elif tname == "Duration": pt, info = G.gen_duration(rng, fi)
                elif tname == "AnnualDate": pt, info = G.gen_annual(rng, fi)
                else:
                    cal = CalendarSystem.iso
                    pt, info = G.gen_datetime(rng, fi, cal, embedded=False)
            except Exception as e:  # noqa: BLE001
                ctx.exc(e); continue
            try:
                p = P.create(pt, culture)
            except InvalidPatternError as e:
                ctx.counters["generated_pattern_rejected"] += 1; ctx.exc(e); continue
            except Exception as e:  # noqa: BLE001   (C08's subject; recorded here as well so that C07 does not silently lose coverage)
                ctx.exc(e); ctx.counters["create_raised_other"] += 1
                V(ctx, f"create-raised:{tname}:{exc_key(e)}", f"{tname} pattern {pt!r} ({culture.name}): create raised {e!r}", {"kind": "create", "type": tname, "pattern": pt, "culture": culture.name}, repr(e)); continue
            try:
                if tname == "LocalDate":
                    if not info["c"]: p = p.with_template_value(G.date_template(cal))
                elif tname == "LocalDateTime":
                    if not info["d"]["c"]: p = p.with_template_value(G.date_template(cal).at_midnight())
            except Exception as e:  # noqa: BLE001
                ctx.exc(e); continue
            for k in range(3):
                try:
                    if tname == "LocalTime": v = G.rep_time(rng, info)
                    elif tname == "LocalDate": v = G.rep_date(rng, cal, info)
                    elif tname == "LocalDateTime": v = G.rep_date(rng, cal, info["d"]).at(G.rep_time(rng, info["t"]))
                    elif tname == "Offset": v = G.rep_offset(rng, info)
                    elif tname == "Duration": v = G.rep_duration(rng, info)
                    elif tname == "AnnualDate": v = G.rep_annual(rng, info)
                    else:
                        ldt = G.rep_date(rng, cal, info["d"]).at(G.rep_time(rng, info["t"]))
                        from pyoda_time import Offset
                        v = ldt.with_offset(Offset.zero).to_instant()
                except Exception as e:  # noqa: BLE001
                    ctx.exc(e); continue
                shape = "".join(ch for ch in pt if ch.isalpha() or ch in "%;.<>")[:40]
                ctx.key((tname, shape, culture.name))
                t = check_roundtrip(ctx, tname, p, pt, culture.name, v, True, "custom_roundtrips", info)
                if t is not None and k == 0:
                    determinism(ctx, tname, P, pt, culture, p, v, t)
                    if info.get("numeric_only") and info.get("padded") and not info.get("z") and tname in ("LocalTime", "LocalDate", "LocalDateTime", "Offset", "AnnualDate"):
                        reformat_parsed_mutants(ctx, tname, p, pt, culture.name, t, rng)
            if len(ctx.samples) < 3:
                ctx.sample({"type": tname, "pattern": pt, "culture": culture.name})


def arbitrary_values(rng, tname, cal=None):
    from pyoda_time import AnnualDate, Duration, LocalTime, Offset
    from vf import gen
    if tname == "LocalTime":
        return LocalTime.from_nanoseconds_since_midnight(rng.choice([0, DAY - 1, 1, 10**9 - 1, rng.randrange(DAY), rng.randrange(86400) * 10**9, rng.randrange(1440) * 60 * 10**9 + rng.choice([1, 500, 999999, 10**6, rng.randrange(10**9)]),
                                                                     rng.randrange(24) * 3600 * 10**9 + rng.choice([0, 1, 60 * 10**9])]))
    if tname == "Offset":
        return Offset.from_seconds(rng.choice([0, 64800, -64800, 1, -1, rng.randint(-64800, 64800), rng.randrange(-72, 73) * 900]))
    if tname == "Duration":
        return Duration.from_nanoseconds(rng.choice([0, 1, -1, gen.DUR_MIN_NS, gen.DUR_MAX_NS, DAY, -DAY, rng.randint(gen.DUR_MIN_NS, gen.DUR_MAX_NS), rng.randint(-10**15, 10**15)]))
    if tname == "AnnualDate":
        m = rng.randint(1, 12); return AnnualDate(m, rng.choice([1, 28, 29 if m == 2 else 30]))
    if tname == "Instant":
        return gen.ns_inst(rng.choice([gen.INST_MIN_NS, gen.INST_MAX_NS, 0, 1, -1, rng.randint(gen.INST_MIN_NS, gen.INST_MAX_NS), rng.randint(-10**18, 4 * 10**18)]))
    cal = cal or gen.ISO
    lo, hi = gen.cal_range(cal.id)
    d = gen.date_of(rng.choice([lo, hi, rng.randint(lo, hi), rng.randint(lo, hi)]), cal)
    if tname == "LocalDate":
        return d
    return d.at(LocalTime.from_nanoseconds_since_midnight(rng.choice([0, DAY - 1, rng.randrange(DAY), rng.randrange(1440) * 60 * 10**9 + rng.choice([1, 500, 999999, rng.randrange(10**9)]), rng.randrange(24) * 3600 * 10**9])))


def G_pattern_class(tname):
    from vf import textgen as G
    return G.pattern_class(tname)


def run_builtin(ctx, n):
    """(b): the built-in round-trip / ISO patterns recover EVERY value of the type."""
    from pyoda_time import text as T
    from vf import gen
    rng = ctx.rng
    cals = list(gen.calendars())
    pats = [("LocalDate", "iso", T.LocalDatePattern.iso, "iso", 1), ("LocalDate", "full_roundtrip", T.LocalDatePattern.full_roundtrip, "any", 1),
            ("LocalTime", "extended_iso", T.LocalTimePattern.extended_iso, None, 1), ("LocalTime", "long_extended_iso", T.LocalTimePattern.long_extended_iso, None, 1),
            ("LocalTime", "general_iso", T.LocalTimePattern.general_iso, None, 10**9),
            ("LocalTime", "hour_minute_iso", T.LocalTimePattern.hour_minute_iso, None, 60 * 10**9), ("LocalTime", "hour_iso", T.LocalTimePattern.hour_iso, None, 3600 * 10**9),
            ("LocalTime", "variable_precision_iso", T.LocalTimePattern.variable_precision_iso, None, 1),
            ("LocalDateTime", "variable_precision_iso", T.LocalDateTimePattern.variable_precision_iso, "iso", 1),
            ("LocalDateTime", "date_hour_minute_iso", T.LocalDateTimePattern.date_hour_minute_iso, "iso", 60 * 10**9), ("LocalDateTime", "date_hour_iso", T.LocalDateTimePattern.date_hour_iso, "iso", 3600 * 10**9),
            ("LocalDateTime", "extended_iso", T.LocalDateTimePattern.extended_iso, "iso", 1), ("LocalDateTime", "general_iso", T.LocalDateTimePattern.general_iso, "iso", 10**9),
            ("LocalDateTime", "bcl_round_trip", T.LocalDateTimePattern.bcl_round_trip, "iso", 100), ("LocalDateTime", "full_roundtrip", T.LocalDateTimePattern.full_roundtrip, "any", 1),
            ("LocalDateTime", "full_roundtrip_without_calendar", T.LocalDateTimePattern.full_roundtrip_without_calendar, "iso", 1),
            ("Instant", "general", T.InstantPattern.general, None, 10**9), ("Instant", "extended_iso", T.InstantPattern.extended_iso, None, 1),
            ("Offset", "general_invariant", T.OffsetPattern.general_invariant, None, 1), ("Offset", "general_invariant_with_z", T.OffsetPattern.general_invariant_with_z, None, 1),
            ("Duration", "roundtrip", T.DurationPattern.roundtrip, None, 1), ("Duration", "json_roundtrip", T.DurationPattern.json_roundtrip, None, 1),
            ("AnnualDate", "iso", T.AnnualDatePattern.iso, None, 1)]
    for tname, pname, p, calmode, unit in pats:
        for _ in range(max(20, n // len(pats))):
            cal = gen.ISO if calmode in (None, "iso") else rng.choice(cals)
            v = arbitrary_values(rng, tname, cal)
            if unit > 1:
                if tname == "LocalTime":
                    from pyoda_time import LocalTime
                    v = LocalTime.from_nanoseconds_since_midnight(v.nanosecond_of_day // unit * unit)
                elif tname == "LocalDateTime":
                    from pyoda_time import LocalTime
                    v = v.date.at(LocalTime.from_nanoseconds_since_midnight(v.nanosecond_of_day // unit * unit))
                elif tname == "Instant":
                    v = gen.ns_inst(gen.inst_ns(v) // unit * unit)
            ctx.key(("builtin", tname, pname, getattr(getattr(v, "calendar", None), "id", None)))
            check_roundtrip(ctx, tname, p, f"<{pname}>", "invariant", v, True, "builtin_roundtrips")
    known = {(t_, n_) for t_, n_, *_ in pats}
    for tname in TYPES:
        P = G_pattern_class(tname)
        for n_ in dir(type(P)):
            if n_.startswith("_") or (tname, n_) in known:
                continue
            try:
                v_ = getattr(P, n_)
            except Exception:  # noqa: BLE001
                continue
            if hasattr(v_, "parse") and hasattr(v_, "format"):
                ctx.note(f"built-in pattern {tname}.{n_} not in the round-trip table: idempotence only")
                for _ in range(40):
                    check_roundtrip(ctx, tname, v_, f"<{n_}>", "invariant", arbitrary_values(rng, tname), False, "builtin_roundtrips")
    ctx.sample({"builtin_patterns": [x[1] for x in pats]})


def run_standard(ctx, n_cult, i, k):
    from pyoda_time.text import InvalidPatternError
    from vf import gen, textgen as G
    from vf.ctx import exc_key
    rng = ctx.rng
    cults = G.cultures(rng, n_cult)
    if n_cult is None:
        cults = cults[i::k]
    for culture in cults:
        for tname, letters in G.STANDARD.items():
            P = G.pattern_class(tname)
            for L in letters:
                ctx.counters["standard_patterns"] += 1
                try:
                    p = P.create(L, culture)
                except InvalidPatternError as e:
                    ctx.exc(e); V(ctx, f"standard-pattern-rejected:{tname}:{L}", f"{tname} standard pattern {L!r} is rejected in culture {culture.name}: {str(e)[:120]}",
                                  {"kind": "std", "type": tname, "pattern": L, "culture": culture.name}); continue
                except Exception as e:  # noqa: BLE001
                    ctx.exc(e); V(ctx, f"create-raised:{tname}:{exc_key(e)}", f"{tname} standard pattern {L!r} ({culture.name}): create raised {e!r}", {"kind": "std", "type": tname, "pattern": L, "culture": culture.name}, repr(e)); continue
                for _ in range(2):
                    v = arbitrary_values(rng, tname)
                    ctx.key(("std", tname, L, culture.name))
                    t = check_roundtrip(ctx, tname, p, L, culture.name, v, False, "standard_patterns")
                    if t is not None:
                        determinism(ctx, tname, P, L, culture, p, v, t)
    ctx.sample({"standard": G.STANDARD["LocalDateTime"], "cultures": len(cults)})


def run_prefix(ctx, limit):
    """Cultures in which the genitive and nominative form of a month name are prefixes of one another: the parser must take the
    longest match across both lists. Month-text patterns with and without a day field (the day field switches formatting to the genitive)."""
    from pyoda_time import AnnualDate, LocalDate
    from vf import textgen as G
    rng = ctx.rng
    hits = []
    for c in G.cultures(rng, None)[1:]:
        try:
            fi = G.fmt_info(c)
            for kind, a, b in (("MMM", fi.short_month_names, fi.short_month_genitive_names), ("MMMM", fi.long_month_names, fi.long_month_genitive_names)):
                if any(a[i].casefold() != b[i].casefold() and (a[i].casefold().startswith(b[i].casefold()) or b[i].casefold().startswith(a[i].casefold())) for i in range(1, 13)):
                    if G.names_ok(fi, kind):
                        hits.append((c, kind))
        except Exception as e:  # noqa: BLE001
            ctx.exc(e)
    ctx.counters["prefix_cultures_found"] += len(hits)
    if limit is not None and len(hits) > limit:
        hits = rng.sample(hits, limit)
    LD = G.pattern_class("LocalDate")
    # names whose length changes under case mapping (case-insensitive matching must slice the text by the right length)
    casehits = []
    for c in G.cultures(rng, None)[1:]:
        try:
            fi = G.fmt_info(c)
            names = list(fi.long_month_names[1:13]) + list(fi.short_month_names[1:13]) + list(fi.long_month_genitive_names[1:13]) + list(fi.short_month_genitive_names[1:13]) + list(fi.long_day_names[1:8]) + list(fi.short_day_names[1:8])
            if any(len(x.casefold()) != len(x) or len(x.upper()) != len(x) or len(x.lower()) != len(x) for x in names if x):
                casehits.append(c)
        except Exception as e:  # noqa: BLE001
            ctx.exc(e)
    ctx.counters["case_length_cultures_found"] += len(casehits)
    for culture in casehits:
        fi = G.fmt_info(culture)
        for pt, kinds in (("d MMMM uuuu", ("MMMM",)), ("MMM d, uuuu", ("MMM",)), ("dddd d MMMM uuuu", ("MMMM", "dddd")), ("ddd d-MM-uuuu", ("ddd",)), ("uuuu MMMM d", ("MMMM",)), ("D", ())):
            if not all(G.names_ok(fi, k) for k in kinds):
                continue
            from pyoda_time.text import InvalidPatternError
            try:
                p = LD.create(pt, culture)
            except InvalidPatternError as e:
                ctx.exc(e); continue
            ctx.counters["case_length_patterns"] += 1
            for m in range(1, 13):
                for dd in (1, 2, 3, 4, 5, 6, 7) if m == 1 else (rng.randint(1, 28),):
                    ctx.key(("case-length", culture.name, pt, m))
                    check_roundtrip(ctx, "LocalDate", p, pt, culture.name, LocalDate(2024, m, dd), pt != "D", "custom_roundtrips")
    LD = G.pattern_class("LocalDate"); AD = G.pattern_class("AnnualDate"); LDT = G.pattern_class("LocalDateTime")
    for culture, kind in hits:
        for pt in (kind, f"{kind} uuuu", f"uuuu {kind}", f"d {kind} uuuu", f"{kind} d", f"uuuu-{kind}-dd", f"'x'{kind}"):
            p = None
            try:
                p = LD.create(pt if len(pt) > 1 else "%" + pt, culture)
            except Exception as e:  # noqa: BLE001
                ctx.exc(e); continue
            hasday = "d" in pt.replace("'x'", "")
            for m in range(1, 13):
                v = LocalDate(2000 if "uuuu" not in pt else rng.choice([1999, 2024, 1, 9999]), m, rng.randint(1, 28) if hasday else 1)
                ctx.key(("prefix", culture.name, pt, m))
                check_roundtrip(ctx, "LocalDate", p, pt, culture.name, v, True, "custom_roundtrips")
        for pt in (f"{kind} d", f"d {kind}", f"dd-{kind}"):
            try:
                p = AD.create(pt, culture)
            except Exception as e:  # noqa: BLE001
                ctx.exc(e); continue
            for m in range(1, 13):
                check_roundtrip(ctx, "AnnualDate", p, pt, culture.name, AnnualDate(m, rng.randint(1, 28)), True, "custom_roundtrips")
        try:
            p = LDT.create(f"{kind} uuuu HH:mm", culture)
            for m in range(1, 13):
                check_roundtrip(ctx, "LocalDateTime", p, f"{kind} uuuu HH:mm", culture.name, LocalDate(2001, m, 1).at_midnight().plus_minutes(rng.randrange(1440)), True, "custom_roundtrips")
        except Exception as e:  # noqa: BLE001
            ctx.exc(e)
    ctx.sample({"prefix_cultures": [c.name for c, _ in hits[:8]]})


def run_modifiers(ctx, n):
    """with_culture / with_two_digit_year_max / with_template_value applied in every order give the same pattern: same text, same parse,
    and a two-digit year resolves by the documented window (century of the template year; one earlier when yy > max and century > 1)."""
    import itertools
    from pyoda_time import Instant, LocalDate, LocalDateTime, Offset
    from pyoda_time._compatibility._culture_info import CultureInfo
    from pyoda_time import text as T
    from vf import textgen as G
    from vf.ctx import exc_key
    rng = ctx.rng
    cults = G.cultures(rng, 10)
    PATS = {"LocalDate": (T.LocalDatePattern, ["yy-MM-dd", "dd/MM/yy", "yy MM dd", "MM/dd/yy"]),
            "LocalDateTime": (T.LocalDateTimePattern, ["yy-MM-dd HH:mm", "dd/MM/yy HH:mm:ss", "HH:mm yy MM dd"]),
            "Instant": (T.InstantPattern, ["yy-MM-dd'T'HH:mm:ss", "dd/MM/yy HH:mm"])}
    for it in range(n):
        tname = rng.choice(list(PATS)); P, pts = PATS[tname]; pt = rng.choice(pts)
        c = rng.choice(cults); M = rng.choice([0, 99, 30, 29, 31, 50, 80, rng.randint(0, 99)])
        tY = rng.choice([2000, 1999, 2100, 1950, 2345, 1900, rng.randint(1801, 2900), 150, 101, 199, 100, 200, 299, rng.randint(100, 400)])   # (templates before year 100 mix year-of-era and absolute year for yy=00: left out)
        # one template in four lies in the BC era (year-of-era and absolute year differ there: the window is one of years-of-era, and the
        # era of the parsed value is the template's), in ISO, Gregorian or Julian for the local types
        bc = it % 4 == 3
        from pyoda_time import CalendarSystem
        from pyoda_time.calendars import Era
        tcal = CalendarSystem.iso if (tname == "Instant" or not bc) else rng.choice([CalendarSystem.iso, CalendarSystem.gregorian, CalendarSystem.julian])
        def mkdate(yoe):
            if bc:
                ctx.count("modifier_bc_templates")
                return LocalDate(year=yoe, month=rng.randint(1, 12), day=rng.randint(1, 28), calendar=tcal, era=Era.before_common)
            return LocalDate(yoe, rng.randint(1, 12), rng.randint(1, 28))
        tv_date = mkdate(tY)
        tv = tv_date if tname == "LocalDate" else (tv_date.at_midnight() if tname == "LocalDateTime" else tv_date.at_midnight().with_offset(Offset.zero).to_instant())
        mods = [("culture", lambda p: p.with_culture(c)), ("two_digit_year_max", lambda p: p.with_two_digit_year_max(M)), ("template", lambda p: p.with_template_value(tv))]
        case = {"kind": "modifiers", "type": tname, "pattern": pt, "culture": c.name, "max": M, "template_year": tY, "template_era": "BC" if bc else "CE", "calendar": tcal.id}
        try:
            base = P.create_with_invariant_culture(pt)
            built = []
            for perm in itertools.permutations(mods):
                q = base
                for _, f in perm: q = f(q)
                built.append(("->".join(nm for nm, _ in perm), q))
        except Exception as e:  # noqa: BLE001
            ctx.exc(e); V(ctx, f"modifier-raised:{tname}:{exc_key(e)}", f"{tname} pattern {pt!r}: applying {[m for m, _ in mods]} raised {e!r}", case, repr(e)); continue
        cen = tY // 100
        for yy in {0, 99, M, (M + 1) % 100, rng.randrange(100), rng.randrange(100)}:
            y = (cen - 1 if (yy > M and cen > 1) else cen) * 100 + yy
            d = mkdate(y)
            v = d if tname == "LocalDate" else (d.at_midnight().plus_minutes(rng.randrange(1440)) if tname == "LocalDateTime" else d.at_midnight().plus_minutes(rng.randrange(1440)).with_offset(Offset.zero).to_instant())
            ctx.ev(); ctx.count("modifier_chains"); ctx.key(("modifiers", tname, pt, yy > M, cen > 20))
            texts = {}; parsed = {}
            for nm, q in built:
                try:
                    t = q.format(v); r = q.parse(t)
                    texts[nm] = t; parsed[nm] = r.value if r.success else ("failed", str(r.exception)[:80])
                except Exception as e:  # noqa: BLE001
                    ctx.exc(e); texts[nm] = parsed[nm] = ("raised", repr(e)[:80])
            if len(set(map(repr, texts.values()))) != 1:
                V(ctx, f"modifier-order:{tname}", f"{tname} pattern {pt!r}, culture {c.name}, max {M}, template year {tY}: formatting {srepr(v)} depends on the order the modifiers were applied in: {texts}", case)
            bad = {nm: srepr(x) for nm, x in parsed.items() if not (x == v)}
            if bad:
                V(ctx, f"modifier-two-digit-year:{tname}", f"{tname} pattern {pt!r}, culture {c.name}, two_digit_year_max {M}, template year {tY}{' BC' if bc else ''} ({tcal.id}): {srepr(v)} (yy={yy}, inside the window) formats as {next(iter(texts.values()))!r} but parses back as {bad}", case)
        q = built[0][1]
        if getattr(q, "two_digit_year_max", M) != M or getattr(q, "template_value", tv) != tv:
            V(ctx, f"modifier-accessors:{tname}", f"two_digit_year_max/template_value accessors report {getattr(q, 'two_digit_year_max', None)!r}/{getattr(q, 'template_value', None)!r}", case)


def run_designators(ctx):
    """Cultures whose AM and PM designators share a prefix, in either direction, or differ only in case / length."""
    from pyoda_time import LocalDateTime, LocalTime
    from pyoda_time._compatibility._culture_info import CultureInfo
    from pyoda_time import text as T
    rng = ctx.rng
    for am, pm in (("pd", "p"), ("p", "pd"), ("AMx", "am"), ("am", "AMx"), ("a", "ab"), ("ab", "a"), ("Foo", "FooBar"), ("FooBar", "Foo"), ("x.", "x"), ("上午", "上"), ("AM", "PM")):
        try:
            c = CultureInfo("en-US").clone(); c.date_time_format.am_designator = am; c.date_time_format.pm_designator = pm
        except Exception as e:  # noqa: BLE001
            ctx.exc(e); continue
        for tname, P, pt, mk in (("LocalTime", T.LocalTimePattern, "hh:mm tt", lambda h, m: LocalTime(h, m)), ("LocalTime", T.LocalTimePattern, "h tt", lambda h, m: LocalTime(h, 0)),
                                 ("LocalTime", T.LocalTimePattern, "tt hh.mm", lambda h, m: LocalTime(h, m)), ("LocalDateTime", T.LocalDateTimePattern, "uuuu-MM-dd hh:mm tt", lambda h, m: LocalDateTime(2024, 5, 6, h, m))):
            try:
                p = P.create(pt, c)
            except Exception as e:  # noqa: BLE001
                ctx.exc(e); continue
            for h in range(24):
                v = mk(h, rng.choice([0, 7, 59]))
                ctx.key(("designators", am, pm, tname, pt))
                check_roundtrip(ctx, tname, p, pt, f"en-US with AM={am!r} PM={pm!r}", v, True, "custom_roundtrips")


def run(ctx, shard):
    for k in REQUIRED["any"] + ["generated_pattern_rejected", "create_raised_other", "prefix_cultures_found", "case_length_cultures_found", "case_length_patterns"]:
        ctx.counters.setdefault(k, 0)
    t = shard["type"]
    if t == "prefix": run_prefix(ctx, shard["limit"])
    elif t == "builtin":
        run_builtin(ctx, shard["n"])
        run_modifiers(ctx, max(60, shard["n"] // 10))
        run_designators(ctx)
    elif t == "standard": run_standard(ctx, shard["cultures"], shard["i"], shard["k"])
    else: run_type(ctx, t, shard["cultures"], shard["patterns"])


def replay(ctx, case):
    from pyoda_time._compatibility._culture_info import CultureInfo
    from vf import textgen as G
    ctx.distinct(2)
    for k in REQUIRED["any"] + ["generated_pattern_rejected", "create_raised_other"]:
        ctx.counters.setdefault(k, 0)
    if case.get("kind") == "c2":
        cname = case["culture"]
        culture = CultureInfo.invariant_culture if cname in ("", "invariant") or not cname else CultureInfo(cname)
        P = G.pattern_class(case["type"]); p = P.create(case["pattern"], culture)
        r = p.parse(case["text"]); ctx.ev(); ctx.counters["reformat_of_parsed_mutants"] += 1
        if r.success and p.format(r.value).casefold() != case["text"].casefold():
            V(ctx, f"accepted-text-not-reproduced:{case['type']}", f"text {case['text']!r} parses but re-formats as {p.format(r.value)!r}", case)
    elif "type" in ctx.shard:
        run(ctx, ctx.shard)
    else:
        run_type(ctx, case.get("type", "LocalTime"), 8, 60) if case.get("type") in TYPES else run_builtin(ctx, 1500)
