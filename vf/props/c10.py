"""C10 — time-of-day and local date-time arithmetic (DESIGN §3 C10).

Model: ns in [0, DAY); LocalDateTime = day_number*DAY + ns on the local timeline; date from the day mapping.
"""
from __future__ import annotations

LEVEL = "exploration"
RULE = ("times {0,1,DAY-1,noon,hour edges, seeded} x amounts {0,+-1,+-(upd-1),+-upd,+-(upd+1),+-k*upd(+-1),+-2^53+-1,+-2^63,+-2^64+-1,+-10^30,+-10^45, seeded} "
        "x 7 units; date-times in every calendar at range ends, month ends (incl. short months), year ends and seeded days; periods mixing "
        "years/months/weeks/days with time units that carry; distinct key = (monitor, unit, amount class, calendar, carry count class, month-end flag)")
ASSUMPTIONS = ["Python int arithmetic", "day<->date mapping of the calendar (monitored by C01)", "LocalDate.plus_years/plus_months (monitored by C09) for the date part of a period"]
MIN_NT = {"quick": 500, "thorough": 2000}
REQUIRED = {"any": ["lt_accessors", "lt_plus", "lt_factories", "ldt_plus", "ldt_period", "dup_accessors"]}

DAY = 86400 * 10**9
UNITS = {"nanoseconds": 1, "ticks": 100, "microseconds": 1000, "milliseconds": 10**6, "seconds": 10**9, "minutes": 60 * 10**9, "hours": 3600 * 10**9}


def shards(tier, seed):
    from pyoda_time import CalendarSystem
    k = 1 if tier == "quick" else 4
    out = [{"name": f"localtime:{i}", "part": "lt"} for i in range(k)]
    out += [{"name": f"ldt:{cid}", "part": "ldt", "cal": cid} for cid in CalendarSystem.ids]
    # auxiliary workload: the repository's own tests with the carry contracts switched on
    if tier == "quick":
        out.append({"name": "repo-tests:local", "part": "repo_tests", "paths": ["tests/test_local_time.py", "tests/test_local_date_time.py", "tests/test_period.py"]})
        out.append({"name": "cross-calendar", "part": "cross", "n": 120})
    else:
        out += [{"name": f"repo-tests:{p}", "part": "repo_tests", "paths": [p]} for p in
                ("tests/test_local_time.py", "tests/test_local_date_time.py", "tests/test_period.py", "tests/test_time_adjusters.py", "tests/test_offset_time.py", "tests/test_zoned_date_time.py",
                 "tests/test_offset_date_time.py", "tests/text", "tests/time_zones")]
    return out


def amounts(rng, upd, n_rand):
    s = {0, 1, -1, upd - 1, upd, upd + 1, -(upd - 1), -upd, -(upd + 1), 2 * upd, -2 * upd, 2 * upd + 1, -2 * upd - 1, 7 * upd, -7 * upd,
         2**53 + 1, -(2**53) - 1, 2**53 * upd + 1, 2**63, -2**63, 2**63 - 1, 2**64 + 1, -(2**64) - 1, 10**30, -10**30, 10**45, -10**45,
         365 * upd + 1, -366 * upd - 1}
    for _ in range(n_rand):
        s.add(rng.randint(-10**6 * upd, 10**6 * upd))
        s.add(rng.choice([-1, 1]) * rng.getrandbits(rng.choice([8, 20, 40, 54, 62, 66, 90])))
    return sorted(s)


def acls(n, upd):
    a = abs(n)
    return ((n > 0) - (n < 0), 0 if a < upd else (1 if a == upd else (2 if a < 2**53 else (3 if a < 2**63 else 4))), a % upd == 0)


def time_fields(t):
    h, r = divmod(t, 3600 * 10**9); m, r2 = divmod(r, 60 * 10**9); s, ns = divmod(r2, 10**9)
    return dict(hour=h, minute=m, second=s, millisecond=ns // 10**6, microsecond=ns // 1000, tick_of_second=ns // 100, tick_of_day=t // 100,
                nanosecond_of_second=ns, nanosecond_of_day=t, clock_hour_of_half_day=(h % 12) or 12)


def check_time_accessors(ctx, obj, t, what, case, names=None):
    exp = time_fields(t)
    for k, v in exp.items():
        if names is not None and k not in names:
            continue
        g = getattr(obj, k, None)
        if g is None and not hasattr(obj, k):
            continue
        ctx.ev()
        if g != v:
            ctx.V(f"C10:{what}-accessor:{k}", f"{what} at {t} ns of day: {k} = {g}, model {v}", case, g, v)


def valid_lt(ctx, r, case, where):
    n = r.nanosecond_of_day
    if not (isinstance(n, int) and 0 <= n < DAY):
        ctx.V(f"C10:localtime-invariant@{where}", f"LocalTime returned by {where} holds nanosecond_of_day={n} outside [0, 24h)", case, n)
        return False
    return True


def install_contracts(ctx):
    try:
        import icontract
    except ImportError:
        ctx.note("icontract unavailable"); return
    try:
        from pyoda_time.fields._time_period_field import _TimePeriodField
    except Exception:  # noqa: BLE001
        ctx.note("internal _TimePeriodField unavailable: carry contract off"); return
    def unit_ns(field):
        u = getattr(field, "_TimePeriodField__unit_nanoseconds", None)
        return u if isinstance(u, int) and u > 0 else None

    def carry_ok(self, local_time, value, result):
        u = unit_ns(self)
        if u is None:
            return True
        ctx.counters["contract_evals"] += 1
        t2, extra = result
        if not (0 <= t2.nanosecond_of_day < DAY) or extra * DAY + t2.nanosecond_of_day != local_time.nanosecond_of_day + value * u:
            ctx.V("C10:contract:add_local_time_with_extra_days", f"carry contract broken: time={local_time.nanosecond_of_day} value={value} unit={u} -> ({t2.nanosecond_of_day}, {extra})",
                  {"kind": "contract", "t": local_time.nanosecond_of_day, "value": value, "unit": u})
        return True

    def wrap_ok(self, local_time, value, result):
        u = unit_ns(self)
        if u is None:
            return True
        ctx.counters["contract_evals"] += 1
        if result.nanosecond_of_day != (local_time.nanosecond_of_day + value * u) % DAY:
            ctx.V("C10:contract:add_local_time", f"wrap contract broken: time={local_time.nanosecond_of_day} value={value} unit={u} -> {result.nanosecond_of_day}",
                  {"kind": "contract", "t": local_time.nanosecond_of_day, "value": value, "unit": u})
        return True

    class Broken(Exception):
        pass

    for name, cond in (("_add_local_time_with_extra_days", carry_ok), ("_add_local_time", wrap_ok)):
        orig = _TimePeriodField.__dict__.get(name)
        if orig is not None:
            setattr(_TimePeriodField, name, icontract.ensure(cond, error=Broken)(orig))


def run_lt(ctx):
    from pyoda_time import LocalTime, Offset, OffsetTime, Period, TimeAdjusters
    rng = ctx.rng
    q = ctx.tier == "quick"
    times = [0, 1, DAY - 1, DAY // 2, 3600 * 10**9, 3600 * 10**9 - 1, 43200 * 10**9 - 1, 43200 * 10**9 + 1, 99, 100, 999999999, 10**9] + [rng.randrange(DAY) for _ in range(25 if q else 120)]
    for t in times:
        lt = LocalTime.from_nanoseconds_since_midnight(t)
        case = {"kind": "lt", "t": t}
        ctx.count("lt_accessors")
        check_time_accessors(ctx, lt, t, "LocalTime", case)
        # duplicated accessor implementations
        off = Offset.from_seconds(rng.randint(-64800, 64800))
        ot = OffsetTime(lt, off); ctx.count("dup_accessors")
        check_time_accessors(ctx, ot, t, "OffsetTime", case)
        if ot.time_of_day != lt or ot.offset != off:
            ctx.V("C10:OffsetTime-parts", f"OffsetTime({t}, {off}) parts wrong", case)
        for nm, unit in (("truncate_to_second", 10**9), ("truncate_to_minute", 60 * 10**9), ("truncate_to_hour", 3600 * 10**9)):
            r = lt.with_time_adjuster(getattr(TimeAdjusters, nm)); ctx.ev()
            if r.nanosecond_of_day != t - t % unit:
                ctx.V(f"C10:adjuster:{nm}", f"{nm} of {t} gave {r.nanosecond_of_day}", case, r.nanosecond_of_day, t - t % unit)
        for name, u in UNITS.items():
            upd = DAY // u
            f = getattr(lt, "plus_" + name)
            for n in amounts(rng, upd, 6 if q else 30):
                c2 = {"kind": "lt_plus", "t": t, "unit": name, "n": n}
                ctx.count("lt_plus"); ctx.ev(); ctx.key(("lt_plus", name, acls(n, upd)))
                try:
                    r = f(n)
                except Exception as e:  # noqa: BLE001
                    from vf.ctx import exc_key
                    ctx.exc(e)
                    ctx.V(f"C10:lt-plus-raised:{exc_key(e)}", f"LocalTime({t}).plus_{name}({n}) raised {e!r} (must wrap)", c2, repr(e)); continue
                if valid_lt(ctx, r, c2, f"plus_{name}") and r.nanosecond_of_day != (t + n * u) % DAY:
                    ctx.V(f"C10:lt-plus:{name}", f"LocalTime({t}).plus_{name}({n}) = {r.nanosecond_of_day}, model {(t + n * u) % DAY}", c2, r.nanosecond_of_day, (t + n * u) % DAY)
                if name in ("hours", "minutes", "seconds", "milliseconds", "ticks", "nanoseconds") and abs(n) < 2**70:
                    p = getattr(Period, "from_" + name)(n)
                    for opn, fn, sign in (("+", lambda: lt + p, 1), ("-", lambda: lt - p, -1), ("plus", lambda: lt.plus(p), 1), ("minus", lambda: lt.minus(p), -1)):
                        ctx.ev()
                        try:
                            r2 = fn()
                        except Exception as e:  # noqa: BLE001
                            ctx.exc(e); ctx.V(f"C10:lt-period-raised:{type(e).__name__}", f"LocalTime({t}) {opn} Period {n} {name} raised {e!r}", c2, repr(e)); continue
                        if r2.nanosecond_of_day != (t + sign * n * u) % DAY:
                            ctx.V(f"C10:lt-period:{opn}", f"LocalTime({t}) {opn} Period({n} {name}) = {r2.nanosecond_of_day}", c2, r2.nanosecond_of_day, (t + sign * n * u) % DAY)
        # time difference
        t2 = rng.choice(times); lt2 = LocalTime.from_nanoseconds_since_midnight(t2); ctx.ev()
        pd = lt - lt2
        tot = ((((pd.hours * 60 + pd.minutes) * 60 + pd.seconds) * 1000 + pd.milliseconds) * 10000 + pd.ticks) * 100 + pd.nanoseconds
        if tot != t - t2 or pd.years or pd.months or pd.weeks or pd.days:
            ctx.V("C10:lt-difference", f"LocalTime({t}) - LocalTime({t2}) = {pd!r} totals {tot}", {"kind": "lt_diff", "a": t, "b": t2}, tot, t - t2)
    ctx.sample({"kind": "lt_plus", "t": times[5], "unit": "hours", "n": -(2**53) - 1})
    # factories accept exactly the in-range arguments
    def fac(name, fn, args, inr, exp_ns):
        case = {"kind": "lt_factory", "name": name, "args": list(args)}
        ctx.count("lt_factories"); ctx.ev(); ctx.key(("fac", name, inr, tuple(a < 0 for a in args)))
        try:
            r = fn(*args)
        except ValueError as e:
            ctx.exc(e)
            if inr: ctx.V(f"C10:factory-rejects-valid:{name}", f"{name}{tuple(args)} raised {e!r}", case, repr(e))
            return
        except Exception as e:  # noqa: BLE001
            ctx.exc(e); ctx.V(f"C10:factory-unexpected-{type(e).__name__}:{name}", f"{name}{tuple(args)} raised {e!r}", case, repr(e)); return
        if not inr:
            ctx.V(f"C10:factory-accepts-invalid:{name}", f"{name}{tuple(args)} returned {r.nanosecond_of_day} instead of raising", case, r.nanosecond_of_day); return
        if valid_lt(ctx, r, case, name) and r.nanosecond_of_day != exp_ns:
            ctx.V(f"C10:factory-value:{name}", f"{name}{tuple(args)} = {r.nanosecond_of_day}, model {exp_ns}", case, r.nanosecond_of_day, exp_ns)
    H = [-1, 0, 1, 11, 12, 23, 24]; M = [-1, 0, 30, 59, 60]; S = [-1, 0, 59, 60]
    for h in H:
        for m in M:
            for s in S:
                ok = 0 <= h <= 23 and 0 <= m <= 59 and 0 <= s <= 59
                base = (h * 3600 + m * 60 + s) * 10**9
                for ms in (-1, 0, 999, 1000):
                    fac("LocalTime", LocalTime, (h, m, s, ms), ok and 0 <= ms <= 999, base + ms * 10**6)
                    for tk in (-1, 0, 9999, 10000):
                        fac("from_hour_minute_second_millisecond_tick", LocalTime.from_hour_minute_second_millisecond_tick, (h, m, s, ms, tk), ok and 0 <= ms <= 999 and 0 <= tk <= 9999, base + ms * 10**6 + tk * 100)
                for tk in (-1, 0, 9999999, 10**7):
                    fac("from_hour_minute_second_tick", LocalTime.from_hour_minute_second_tick, (h, m, s, tk), ok and 0 <= tk <= 9999999, base + tk * 100)
                for ns in (-1, 0, 999999999, 10**9):
                    fac("from_hour_minute_second_nanosecond", LocalTime.from_hour_minute_second_nanosecond, (h, m, s, ns), ok and 0 <= ns <= 999999999, base + ns)
    for name, u in (("nanoseconds", 1), ("ticks", 100), ("milliseconds", 10**6), ("seconds", 10**9), ("minutes", 60 * 10**9), ("hours", 3600 * 10**9)):
        upd = DAY // u
        f = getattr(LocalTime, f"from_{name}_since_midnight")
        for v in [-1, 0, 1, upd - 1, upd, upd + 1, -upd, 2**63] + [rng.randrange(upd) for _ in range(20)]:
            fac(f"from_{name}_since_midnight", f, (v,), 0 <= v < upd, v * u)


def month_end_days(cal, cid, rng, n_years):
    from pyoda_time import LocalDate
    from vf import gen
    lo, hi = gen.cal_range(cid)
    out = []
    for _ in range(n_years):
        y = rng.randint(cal.min_year, cal.max_year)
        for m in range(1, cal.get_months_in_year(y) + 1):
            try:
                d = gen.day_of(LocalDate(y, m, cal.get_days_in_month(y, m), cal))
            except Exception:  # noqa: BLE001
                continue
            if lo <= d <= hi:
                out.append(d)
    return out


def run_ldt(ctx, cid):
    from pyoda_time import LocalTime, Offset, Period, PeriodBuilder
    from vf import gen
    from vf.ctx import exc_key
    rng = ctx.rng
    q = ctx.tier == "quick"
    cal = gen.cal_by_id(cid)
    lo, hi = gen.cal_range(cid)
    mends = month_end_days(cal, cid, rng, 3 if q else 25)
    days = [lo, lo + 1, hi - 1, hi] + [rng.randint(lo, hi) for _ in range(10 if q else 80)] + rng.sample(mends, min(len(mends), 14 if q else 120))
    times = [0, 1, DAY - 1, DAY // 2, 23 * 3600 * 10**9 + 30 * 60 * 10**9, 3600 * 10**9 - 1] + [rng.randrange(DAY) for _ in range(4)]
    mend_set = set(mends)
    for d in days:
        t = rng.choice(times)
        date = gen.date_of(d, cal)
        ldt = date.at(LocalTime.from_nanoseconds_since_midnight(t))
        case0 = {"kind": "ldt", "cal": cid, "d": d, "t": t}
        ctx.count("dup_accessors")
        check_time_accessors(ctx, ldt, t, "LocalDateTime", case0)
        if gen.ymd(ldt.date) != gen.ymd(date) or (ldt.year, ldt.month, ldt.day) != gen.ymd(date) or ldt.calendar is not cal:
            ctx.V("C10:ldt-date-parts", f"LocalDateTime date parts disagree with its date for {case0}", case0)
        try:
            odt = ldt.with_offset(Offset.from_seconds(rng.randint(-64800, 64800)))
            check_time_accessors(ctx, odt, t, "OffsetDateTime", case0)
        except Exception as e:  # noqa: BLE001
            ctx.exc(e)
        for name, u in UNITS.items():
            f = getattr(ldt, "plus_" + name, None)
            if f is None:
                continue
            upd = DAY // u
            am = amounts(rng, upd, 3)
            for n in rng.sample(am, 9 if q else 20) + [rng.randint(-40 * upd, 40 * upd)]:
                T = d * DAY + t + n * u; ed, et = divmod(T, DAY); inr = lo <= ed <= hi
                case = {"kind": "ldt_plus", "cal": cid, "d": d, "t": t, "unit": name, "n": n}
                ctx.count("ldt_plus"); ctx.ev(); ctx.key(("ldt_plus", cid, name, acls(n, upd), inr, d in mend_set, min(abs(ed - d), 3)))
                try:
                    r = f(n)
                except (ValueError, OverflowError, ArithmeticError, LookupError) as e:
                    ctx.exc(e)
                    if inr:
                        ctx.V(f"C10:ldt-plus-raised-in-range:{name}", f"{cid} day {d} t={t} plus_{name}({n}) raised {e!r}; model result day {ed} is in range", case, repr(e))
                    continue
                except Exception as e:  # noqa: BLE001
                    ctx.exc(e); ctx.V(f"C10:ldt-plus-unexpected:{exc_key(e)}", f"{cid} day {d} plus_{name}({n}) raised {e!r}", case, repr(e)); continue
                if not inr:
                    ctx.V(f"C10:ldt-plus-out-of-range-returned:{name}", f"{cid} day {d} t={t} plus_{name}({n}) returned {r!r}; model day {ed} outside [{lo},{hi}]", case, repr(r)); continue
                got = (gen.day_of(r.date), r.nanosecond_of_day)
                exp_ymd = gen.ymd(gen.date_of(ed, cal))
                if got != (ed, et) or r.calendar is not cal or gen.ymd(r.date) != exp_ymd:
                    ctx.V(f"C10:ldt-plus:{name}", f"{cid} day {d} t={t} plus_{name}({n}) = day {got[0]} ns {got[1]} ymd {gen.ymd(r.date)}; model day {ed} ns {et} ymd {exp_ymd}", case, got, (ed, et))
        # period addition: date units first-to-last, then time units with carry
        for _ in range(6 if q else 30):
            yrs = rng.choice([0, 0, 1, -1, rng.randint(-3, 3)]); mon = rng.choice([0, 1, -1, 11, rng.randint(-14, 14)])
            wk = rng.choice([0, 0, 1, -2]); dy = rng.choice([0, 1, -1, 30, rng.randint(-40, 40)])
            hrs = rng.choice([0, 1, 2, -2, 23, 24, 25, -25, rng.randint(-100, 100)]); mins = rng.choice([0, 0, 59, -61, 1440, rng.randint(-3000, 3000)])
            sec = rng.choice([0, 0, 86400, -1, rng.randint(-10**5, 10**5)]); ms = rng.choice([0, 0, 999, -86400001]); tk = rng.choice([0, 0, -1, 10**7]); ns = rng.choice([0, 0, 1, -1, DAY, rng.randint(-DAY, DAY)])
            p = PeriodBuilder(years=yrs, months=mon, weeks=wk, days=dy, hours=hrs, minutes=mins, seconds=sec, milliseconds=ms, ticks=tk, nanoseconds=ns).build()
            tot = hrs * 3600 * 10**9 + mins * 60 * 10**9 + sec * 10**9 + ms * 10**6 + tk * 100 + ns
            for sign, opn, fn in ((1, "plus", lambda: ldt.plus(p)), (1, "+", lambda: ldt + p), (-1, "minus", lambda: ldt.minus(p)), (-1, "-", lambda: ldt - p)):
                case = {"kind": "ldt_period", "cal": cid, "d": d, "t": t, "op": opn, "p": [yrs, mon, wk, dy, hrs, mins, sec, ms, tk, ns]}
                ctx.count("ldt_period"); ctx.ev()
                try:
                    base = date.plus_years(sign * yrs).plus_months(sign * mon)
                    bd = gen.day_of(base)
                except Exception as e:  # noqa: BLE001
                    ctx.exc(e); continue  # date part leaves the range (judged by C09)
                carry, et = divmod(t + sign * tot, DAY)
                ed = bd + sign * (7 * wk + dy) + carry
                inr = lo <= ed <= hi and lo <= bd + sign * 7 * wk <= hi
                ctx.key(("ldt_period", cid, opn, yrs != 0, mon != 0, max(-2, min(2, carry)), d in mend_set, gen.ymd(date)[2] > 28))
                try:
                    r = fn()
                except (ValueError, OverflowError, ArithmeticError, LookupError) as e:
                    ctx.exc(e)
                    if inr:
                        ctx.V("C10:ldt-period-raised-in-range", f"{cid} {ldt!r} {opn} {p!r} raised {e!r}; model day {ed}", case, repr(e))
                    continue
                except Exception as e:  # noqa: BLE001
                    ctx.exc(e); ctx.V(f"C10:ldt-period-unexpected:{exc_key(e)}", f"{cid} {ldt!r} {opn} {p!r} raised {e!r}", case, repr(e)); continue
                if not (lo <= ed <= hi):
                    ctx.V("C10:ldt-period-out-of-range-returned", f"{cid} {ldt!r} {opn} {p!r} returned {r!r}; model day {ed} outside range", case, repr(r)); continue
                got = (gen.day_of(r.date), r.nanosecond_of_day)
                if got != (ed, et) or r.calendar is not cal:
                    ctx.V(f"C10:ldt-period:{opn}", f"{cid} {ldt!r} {opn} {p!r} = day {got[0]} ns {got[1]}; model (date units first, then time units with carry) day {ed} ns {et}", case, got, (ed, et))
    ctx.sample({"kind": "ldt_plus", "cal": cid, "d": days[-1], "t": times[4], "unit": "hours", "n": 1})


def run_cross(ctx, n):
    """The same physical day and time and the same amount put to several calendars one after the other: each result is that calendar's own
    rendering of (day + carry, time) - whatever another calendar was asked just before."""
    from pyoda_time import LocalTime, Period
    from vf import gen
    rng = ctx.rng
    cals = gen.calendars()
    for _ in range(n):
        d = rng.randint(-200000, 900000); t = rng.choice([0, DAY - 1, 23 * 3600 * 10**9, rng.randrange(DAY)])
        from pyoda_time import LocalDateTime as _LDT
        name = rng.choice([k for k in UNITS if hasattr(_LDT, "plus_" + k)]); u = UNITS[name]
        amt = rng.choice([1, -1, 2 * DAY // u + 1, -(DAY // u) - 1, 25 * 3600 * 10**9 // u, rng.randint(-5 * DAY // u - 1, 5 * DAY // u + 1)])
        total = d * DAY + t + amt * u; ed, et = divmod(total, DAY)
        order = rng.sample(cals, min(len(cals), 7))
        for rounds in range(2):
            for cal in order:
                lo, hi = gen.cal_range(cal.id)
                if not (lo + 10 < d < hi - 10 and lo + 10 < ed < hi - 10): continue
                x = gen.date_of(d, cal).at(LocalTime.from_nanoseconds_since_midnight(t))
                for nm, fn in ((f"plus_{name}", lambda: getattr(x, "plus_" + name)(amt)), ("+Period", lambda: x + getattr(Period, "from_" + name)(amt))):
                    if nm == "+Period" and not hasattr(Period, "from_" + name): continue
                    ctx.ev(); ctx.count("ldt_plus"); ctx.key(("cross", cal.id, name))
                    try:
                        r = fn()
                    except Exception as e:  # noqa: BLE001
                        ctx.exc(e); ctx.V(f"C10:cross-calendar-raised:{type(e).__name__}", f"{cal.id} day {d} t {t} {nm}({amt}) raised {e!r}", {"kind": "cross", "cal": cal.id, "d": d, "t": t, "unit": name, "n": amt}, repr(e)); continue
                    if r.calendar is not cal or gen.day_of(r.date) != ed or r.nanosecond_of_day != et or gen.ymd(r.date) != gen.ymd(gen.date_of(ed, cal)):
                        ctx.V("C10:cross-calendar", f"{cal.id} day {d} ns {t} {nm}({amt}) = {r!r} (calendar {r.calendar.id}, day {gen.day_of(r.date)}, ns {r.nanosecond_of_day}) right after other calendars were asked the same; expected day {ed} ns {et} in {cal.id}",
                              {"kind": "cross", "cal": cal.id, "d": d, "t": t, "unit": name, "n": amt}, (r.calendar.id, gen.day_of(r.date)), (cal.id, ed))
    ctx.sample({"kind": "cross", "n": n})


def run(ctx, shard):
    install_contracts(ctx)
    if shard["part"] == "repo_tests":
        from vf.repo_tests import run_repo_tests
        run_repo_tests(ctx, shard["paths"])
        return
    if shard["part"] == "cross":
        run_cross(ctx, shard["n"]); return
    if shard["part"] == "lt":
        run_lt(ctx)
    else:
        run_ldt(ctx, shard["cal"])


def replay(ctx, case):
    """Single-case replay for the two arithmetic kinds; other kinds re-run their deterministic part."""
    from pyoda_time import LocalTime
    from vf import gen
    install_contracts(ctx)
    k = case["kind"]
    ctx.distinct(2)
    if k == "lt_plus":
        t, name, n = case["t"], case["unit"], case["n"]; u = UNITS[name]
        ctx.ev()
        try:
            r = getattr(LocalTime.from_nanoseconds_since_midnight(t), "plus_" + name)(n)
        except Exception as e:  # noqa: BLE001
            ctx.V(f"C10:lt-plus-raised:{type(e).__name__}", f"raised {e!r}", case, repr(e)); return
        if r.nanosecond_of_day != (t + n * u) % DAY:
            ctx.V(f"C10:lt-plus:{name}", f"LocalTime({t}).plus_{name}({n}) = {r.nanosecond_of_day}, model {(t + n * u) % DAY}", case, r.nanosecond_of_day, (t + n * u) % DAY)
    elif k == "ldt_plus":
        cid, d, t, name, n = case["cal"], case["d"], case["t"], case["unit"], case["n"]; u = UNITS[name]
        cal = gen.cal_by_id(cid); lo, hi = gen.cal_range(cid)
        ldt = gen.date_of(d, cal).at(LocalTime.from_nanoseconds_since_midnight(t))
        T = d * DAY + t + n * u; ed, et = divmod(T, DAY); inr = lo <= ed <= hi
        ctx.ev()
        try:
            r = getattr(ldt, "plus_" + name)(n)
        except Exception as e:  # noqa: BLE001
            if inr: ctx.V(f"C10:ldt-plus-raised-in-range:{name}", f"raised {e!r}", case, repr(e))
            return
        if not inr:
            ctx.V(f"C10:ldt-plus-out-of-range-returned:{name}", f"returned {r!r}", case); return
        got = (gen.day_of(r.date), r.nanosecond_of_day)
        if got != (ed, et) or gen.ymd(r.date) != gen.ymd(gen.date_of(ed, cal)):
            ctx.V(f"C10:ldt-plus:{name}", f"{cid} day {d} t={t} plus_{name}({n}) = {got} ymd {gen.ymd(r.date)}; model {(ed, et)}", case, got, (ed, et))
    elif "part" in ctx.shard:
        run(ctx, ctx.shard)      # original shard restored by the runner
    elif k in ("ldt_period", "ldt"):
        run_ldt(ctx, case["cal"])
    else:
        run_lt(ctx)
