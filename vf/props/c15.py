"""C15 — conversions to/from the standard library's datetime types (DESIGN §3 C15). Oracle: the stdlib itself."""
from __future__ import annotations

import datetime as dt

LEVEL = "exploration"
RULE = ("dates: every ordinal in thorough (exhaustive), boundary + seeded in quick; times/naive/aware datetimes/timedeltas: min, max, "
        "year edges, microsecond edges, seeded uniform; non-ISO calendars for the to_* direction; out-of-range pyoda values must raise; "
        "distinct key = (type, direction, boundary class, calendar/offset class)")
ASSUMPTIONS = ["the standard library's datetime module is the oracle", "proleptic Gregorian ordinal 719163 = 1970-01-01"]
MIN_NT = {"quick": 300, "thorough": 1000}
REQUIRED = {"any": ["date", "time", "naive", "aware", "timedelta", "out_of_range"]}
EXHAUSTIVE = {"thorough": True}

UNIX = 719163
MAXORD = 3652059
DAY = 86400 * 10**9
E = dt.datetime(1970, 1, 1)


def shards(tier, seed):
    out = []
    if tier == "thorough":
        n = 32
        step = (MAXORD + n - 1) // n
        out += [{"name": f"dates:{i}", "part": "dates", "lo": 1 + i * step, "hi": min(MAXORD, (i + 1) * step)} for i in range(n)]
        out += [{"name": f"mixed:{i}", "part": "mixed", "n": 60000} for i in range(8)]
    else:
        out += [{"name": "dates:sample", "part": "dates_sample"}] + [{"name": f"mixed:{i}", "part": "mixed", "n": 5000} for i in range(4)]
    return out


def V(ctx, k, what, case, obs=None, exp=None):
    ctx.V(f"C15:{k}", what, case, obs, exp)


def check_date(ctx, o):
    from pyoda_time import LocalDate
    d = dt.date.fromordinal(o)
    ld = LocalDate.from_date(d)
    ctx.ev()
    if (ld.year, ld.month, ld.day) != (d.year, d.month, d.day) or ld.to_date() != d:
        V(ctx, "date-roundtrip", f"date ordinal {o} ({d}) -> {ld!r} -> {ld.to_date()}", {"kind": "date", "o": o}, repr(ld), str(d))


def check_date_cal(ctx, cid, o):
    from pyoda_time import LocalDate
    from vf import gen
    cal = gen.cal_by_id(cid)
    d = dt.date.fromordinal(o)
    x = gen.date_of(o - UNIX, cal)
    ctx.ev(); ctx.key(("date-cal", cid, o < 400, o > MAXORD - 400))
    try:
        r = x.to_date()
    except Exception as e:  # noqa: BLE001
        V(ctx, "to_date-raised-in-range", f"{cid} {x!r}.to_date() raised {e!r}; same physical day is {d}", {"kind": "date_cal", "cal": cid, "o": o}, repr(e)); return
    if r != d:
        V(ctx, "to_date-calendar", f"{cid} {x!r}.to_date() = {r}, physical day is {d}", {"kind": "date_cal", "cal": cid, "o": o}, str(r), str(d))


def check_time(ctx, us_of_day, extra_ns):
    from pyoda_time import LocalTime
    s, us = divmod(us_of_day, 10**6)
    t = dt.time(s // 3600, s // 60 % 60, s % 60, us)
    case = {"kind": "time", "us": us_of_day, "extra_ns": extra_ns}
    ctx.ev(); ctx.key(("time", us == 0, us == 999999, s == 0, s == 86399, extra_ns))
    lt = LocalTime.from_time(t)
    if lt.nanosecond_of_day != us_of_day * 1000 or lt.to_time() != t:
        V(ctx, "time-roundtrip", f"time {t} -> {lt!r} ({lt.nanosecond_of_day}) -> {lt.to_time()}", case, lt.nanosecond_of_day, us_of_day * 1000)
    lt2 = LocalTime.from_nanoseconds_since_midnight(us_of_day * 1000 + extra_ns)
    if lt2.to_time() != t:
        V(ctx, "to_time-floor", f"LocalTime({us_of_day * 1000 + extra_ns} ns).to_time() = {lt2.to_time()}, floor to microseconds is {t}", case, str(lt2.to_time()), str(t))


def check_naive(ctx, us_since_min, cid, extra_ns):
    from pyoda_time import LocalDateTime
    from vf import gen
    d = dt.datetime.min + dt.timedelta(microseconds=us_since_min)
    case = {"kind": "naive", "us": us_since_min, "cal": cid, "extra_ns": extra_ns}
    ctx.ev(); ctx.key(("naive", cid, d.year == 1, d.year == 9999, d.microsecond in (0, 999999), (d.month, d.day) in ((1, 1), (12, 31))))
    try:
        l = LocalDateTime.from_naive_datetime(d)
        if (l.year, l.month, l.day, l.hour, l.minute, l.second, l.nanosecond_of_second) != (d.year, d.month, d.day, d.hour, d.minute, d.second, d.microsecond * 1000):
            V(ctx, "from_naive-fields", f"from_naive_datetime({d!r}) = {l!r}", case, repr(l))
        b = l.to_naive_datetime()
        if b != d:
            V(ctx, "naive-roundtrip", f"{d!r} -> {l!r} -> {b!r}", case, repr(b), repr(d))
        if extra_ns:
            l3 = l.plus_nanoseconds(extra_ns)
            if l3.to_naive_datetime() != d:
                V(ctx, "to_naive-floor", f"{l3!r}.to_naive_datetime() = {l3.to_naive_datetime()!r}; floor is {d!r}", case)
    except Exception as e:  # noqa: BLE001
        ctx.exc(e)
        V(ctx, f"naive-raised-in-range:{type(e).__name__}", f"naive datetime {d!r} (inside datetime's range) raised {e!r}", case, repr(e)); return
    if cid is not None:
        cal = gen.cal_by_id(cid)
        lo, hi = gen.cal_range(cid)
        if lo <= d.date().toordinal() - UNIX <= hi:
            try:
                l2 = LocalDateTime.from_naive_datetime(d, cal)
                if l2.calendar is not cal or gen.day_of(l2.date) != d.date().toordinal() - UNIX or l2.nanosecond_of_day != l.nanosecond_of_day:
                    V(ctx, "from_naive-calendar", f"from_naive_datetime({d!r}, {cid}) = {l2!r} is not the same physical moment", case, repr(l2))
                if l2.to_naive_datetime() != d:
                    V(ctx, "naive-calendar-roundtrip", f"{d!r} via {cid}: {l2!r} -> {l2.to_naive_datetime()!r}", case)
            except Exception as e:  # noqa: BLE001
                ctx.exc(e)
                V(ctx, f"naive-calendar-raised:{type(e).__name__}", f"{d!r} via {cid} raised {e!r}", case, repr(e))


def check_aware(ctx, us_since_min, off_s):
    from pyoda_time import Instant, OffsetDateTime
    from vf import gen
    d = dt.datetime.min + dt.timedelta(microseconds=us_since_min)
    tz = dt.timezone(dt.timedelta(seconds=off_s)); a = d.replace(tzinfo=tz)
    case = {"kind": "aware", "us": us_since_min, "off": off_s}
    utc_us = us_since_min - off_s * 10**6  # microseconds since datetime.min, in UTC
    in_utc_range = 0 <= utc_us <= (MAXORD * 86400 * 10**6 - 1)
    ctx.ev(); ctx.key(("aware", off_s % 60 == 0, off_s % 3600 == 0, (off_s > 0) - (off_s < 0), abs(off_s) == 64800, in_utc_range, d.year in (1, 9999)))
    exp_ns = (utc_us - (UNIX - 1) * 86400 * 10**6) * 1000
    try:
        i = Instant.from_aware_datetime(a)
    except Exception as e:  # noqa: BLE001
        ctx.exc(e)
        if gen.INST_MIN_NS <= exp_ns <= gen.INST_MAX_NS:
            V(ctx, f"instant-from-aware-raised:{type(e).__name__}", f"Instant.from_aware_datetime({a!r}) raised {e!r}", case, repr(e))
        i = None
    if i is not None:
        if gen.inst_ns(i) != exp_ns:
            V(ctx, "instant-from-aware-value", f"Instant.from_aware_datetime({a!r}) = {gen.inst_ns(i)} ns, expected {exp_ns}", case, gen.inst_ns(i), exp_ns)
        if in_utc_range:
            try:
                back = i.to_datetime_utc()
                if back != a or back.utcoffset() != dt.timedelta(0):
                    V(ctx, "instant-aware-roundtrip", f"{a!r} -> {i!r} -> {back!r}", case, repr(back))
            except Exception as e:  # noqa: BLE001
                ctx.exc(e); V(ctx, f"to_datetime_utc-raised:{type(e).__name__}", f"{i!r}.to_datetime_utc() raised {e!r} for an instant inside datetime's range", case, repr(e))
        else:
            try:
                back = i.to_datetime_utc()
                V(ctx, "to_datetime_utc-out-of-range-returned", f"{i!r}.to_datetime_utc() returned {back!r} although the instant is outside datetime's range", case, repr(back))
            except (RuntimeError, OverflowError, ValueError) as e:
                ctx.exc(e); ctx.count("out_of_range")
    # the same instant seen at another offset must convert to ITS wall-clock fields and offset (aware == compares instants only)
    try:
        off2 = 3600 if off_s != 3600 else -7200
        a2 = a.astimezone(dt.timezone(dt.timedelta(seconds=off2)))
        o1 = OffsetDateTime.from_aware_datetime(a); o2 = OffsetDateTime.from_aware_datetime(a2)
        l2 = o2.local_date_time
        if o2.offset.seconds != off2 or (l2.year, l2.month, l2.day, l2.hour, l2.minute, l2.second) != (a2.year, a2.month, a2.day, a2.hour, a2.minute, a2.second) or o1.offset.seconds != off_s:
            V(ctx, "odt-from-aware-same-instant-other-offset", f"{a2!r} (same instant as {a!r}, converted just before) -> {o2!r}: wall-clock fields or offset are not those of the datetime given", case, repr(o2))
    except (OverflowError, ValueError) as e:
        ctx.exc(e)
    try:
        odt = OffsetDateTime.from_aware_datetime(a)
        if odt.offset.seconds != off_s:
            V(ctx, "odt-from-aware-offset", f"OffsetDateTime.from_aware_datetime({a!r}).offset = {odt.offset.seconds}", case, odt.offset.seconds, off_s)
        l = odt.local_date_time
        if (l.year, l.month, l.day, l.hour, l.minute, l.second, l.nanosecond_of_second) != (d.year, d.month, d.day, d.hour, d.minute, d.second, d.microsecond * 1000):
            V(ctx, "odt-from-aware-local", f"OffsetDateTime.from_aware_datetime({a!r}) local = {l!r}", case, repr(l))
        b = odt.to_aware_datetime()
        if b != a or b.utcoffset() != a.utcoffset() or b.replace(tzinfo=None) != d:
            V(ctx, "odt-aware-roundtrip", f"{a!r} -> {odt!r} -> {b!r}", case, repr(b))
    except Exception as e:  # noqa: BLE001
        ctx.exc(e)
        V(ctx, f"odt-aware-raised:{type(e).__name__}", f"OffsetDateTime aware round trip of {a!r} raised {e!r}", case, repr(e))


def check_aware_subsecond(ctx, us_since_min, off_us):
    """Instant can represent any aware datetime exactly, also when the utc offset has a sub-second part."""
    from pyoda_time import Instant
    from vf import gen
    d = dt.datetime.min + dt.timedelta(microseconds=us_since_min)
    a = d.replace(tzinfo=dt.timezone(dt.timedelta(microseconds=off_us)))
    utc_us = us_since_min - off_us
    if not 0 <= utc_us <= MAXORD * 86400 * 10**6 - 1:
        return
    case = {"kind": "aware_subsecond", "us": us_since_min, "off_us": off_us}
    ctx.ev(); ctx.counters["aware"] += 1; ctx.key(("aware-subsecond", off_us % 10**6 != 0, (off_us > 0) - (off_us < 0)))
    exp_ns = (utc_us - (UNIX - 1) * 86400 * 10**6) * 1000
    try:
        i = Instant.from_aware_datetime(a)
        if gen.inst_ns(i) != exp_ns:
            V(ctx, "instant-from-aware-subsecond-offset", f"Instant.from_aware_datetime({a!r}) = {gen.inst_ns(i)} ns; exact value {exp_ns} (utc offset {off_us} us)", case, gen.inst_ns(i), exp_ns)
        elif i.to_datetime_utc() != a:
            V(ctx, "instant-aware-roundtrip", f"{a!r} -> {i!r} -> {i.to_datetime_utc()!r}", case)
    except Exception as e:  # noqa: BLE001
        ctx.exc(e); V(ctx, f"instant-from-aware-raised:{type(e).__name__}", f"Instant.from_aware_datetime({a!r}) raised {e!r}", case, repr(e))


def check_timedelta(ctx, us, extra_ns):
    from pyoda_time import Duration
    from vf import gen
    t = dt.timedelta(microseconds=us)
    case = {"kind": "timedelta", "us": us, "extra_ns": extra_ns}
    ctx.ev(); ctx.key(("td", (us > 0) - (us < 0), abs(us).bit_length() // 8, extra_ns))
    inr = gen.DUR_MIN_NS <= us * 1000 <= gen.DUR_MAX_NS
    try:
        du = Duration.from_timedelta(t)
    except (ValueError, OverflowError) as e:
        ctx.exc(e)
        if inr: V(ctx, "from_timedelta-raised", f"Duration.from_timedelta({t!r}) raised {e!r}", case, repr(e))
        return
    if not inr:
        V(ctx, "from_timedelta-out-of-range-returned", f"Duration.from_timedelta({t!r}) returned {du!r}", case); return
    if du.to_nanoseconds() != us * 1000:
        V(ctx, "from_timedelta-value", f"Duration.from_timedelta({t!r}) = {du.to_nanoseconds()} ns", case, du.to_nanoseconds(), us * 1000)
    if du.to_timedelta() != t:
        V(ctx, "timedelta-roundtrip", f"{t!r} -> {du!r} -> {du.to_timedelta()!r}", case)
    if extra_ns:
        ns = us * 1000 + (extra_ns if us >= 0 else -extra_ns)
        if gen.DUR_MIN_NS <= ns <= gen.DUR_MAX_NS:
            d2 = Duration.from_nanoseconds(ns)
            if d2.to_timedelta() != t:
                V(ctx, "to_timedelta-truncation", f"Duration({ns} ns).to_timedelta() = {d2.to_timedelta()!r}; truncation toward zero gives {t!r}", case)


def check_offset_td(ctx, s):
    from pyoda_time import Offset
    ctx.ev()
    o = Offset.from_seconds(s)
    if o.to_timedelta() != dt.timedelta(seconds=s) or Offset.from_timedelta(dt.timedelta(seconds=s)) != o:
        V(ctx, "offset-timedelta", f"Offset({s}) timedelta round trip wrong", {"kind": "offset_td", "s": s})


def check_offset_td_sub(ctx, us):
    """Offset.from_timedelta: 'fractional seconds truncated' (toward zero, like every other Offset factory); outside +-18 h it raises."""
    from pyoda_time import Offset
    td = dt.timedelta(microseconds=us)
    lim = 18 * 3600 * 10**6
    case = {"kind": "offset_td_sub", "us": us}
    ctx.ev(); ctx.count("offset_timedelta_subsecond"); ctx.key(("offset-td-sub", (us > 0) - (us < 0), us % 10**6 != 0, abs(us) > lim))
    try:
        o = Offset.from_timedelta(td)
    except ValueError as e:
        ctx.exc(e)
        if abs(us) <= lim:
            V(ctx, "offset-from_timedelta-raised", f"Offset.from_timedelta({td!r}) raised {e!r} although it lies within +-18 h", case, repr(e))
        return
    except Exception as e:  # noqa: BLE001
        ctx.exc(e); V(ctx, f"offset-from_timedelta-raised:{type(e).__name__}", f"Offset.from_timedelta({td!r}) raised {e!r}", case, repr(e)); return
    want = abs(us) // 10**6 * (1 if us >= 0 else -1)
    if abs(us) > lim:
        V(ctx, "offset-from_timedelta-out-of-range-returned", f"Offset.from_timedelta({td!r}) returned {o.seconds} s; the documented range is +-18 h", case, o.seconds)
    elif o.seconds != want:
        V(ctx, "offset-from_timedelta-truncation", f"Offset.from_timedelta({td!r}) = {o.seconds} s; truncating the fraction gives {want} s", case, o.seconds, want)


def check_threads(ctx):
    """The conversions are functions of their argument also when several threads convert at once (each thread its own offsets and values)."""
    import sys
    import threading
    from pyoda_time import Instant, LocalDateTime, Offset, OffsetDateTime
    rng = ctx.rng
    bad = []
    total = [0]

    def worker(tid, seed):
        import random
        r = random.Random(seed)
        offs = [tid * 1800 - 7200, -(tid * 900) - 60, r.randint(-64800, 64800)]
        for k in range(250):
            off = r.choice(offs); us = r.randint(10**15, 6 * 10**16)
            naive = dt.datetime(1, 1, 1) + dt.timedelta(microseconds=us)
            aware = naive.replace(tzinfo=dt.timezone(dt.timedelta(seconds=off)))
            try:
                odt = OffsetDateTime.from_aware_datetime(aware)
                back = odt.to_aware_datetime()
                ldt = LocalDateTime.from_naive_datetime(naive); nb = ldt.to_naive_datetime()
                ins_ = Instant.from_aware_datetime(aware)
                ok = (back == aware and back.utcoffset() == aware.utcoffset() and back.replace(tzinfo=None) == naive and odt.offset.seconds == off and nb == naive
                      and ins_.to_datetime_utc() == aware)
            except Exception as e:  # noqa: BLE001
                ok = False; back = repr(e)
            total[0] += 1
            if not ok:
                bad.append((repr(aware), repr(back))); return
    old = sys.getswitchinterval()
    try:
        sys.setswitchinterval(1e-6)
        for trial in range(2 if ctx.tier == "quick" else 12):
            ths = [threading.Thread(target=worker, args=(i, rng.randrange(10**9))) for i in range(8)]
            [t.start() for t in ths]; [t.join(600) for t in ths]
            ctx.ev(); ctx.key(("threads", trial))
            if bad: break
    finally:
        sys.setswitchinterval(old)
    ctx.count("threaded_conversions", total[0])
    if bad:
        V(ctx, "concurrent-conversion-differs", f"with 8 threads converting at once, {bad[0][0]} came back as {bad[0][1]}", {"kind": "threads"}, bad[0][1], bad[0][0])


def check_out_of_range(ctx):
    from pyoda_time import CalendarSystem, Instant, LocalDate, LocalDateTime, LocalTime, Offset
    from vf import gen
    def must_raise(name, fn, case):
        ctx.ev(); ctx.count("out_of_range"); ctx.key(("oor", name, str(case)))
        try:
            r = fn()
        except (RuntimeError, OverflowError, ValueError) as e:
            ctx.exc(e); return
        except Exception as e:  # noqa: BLE001
            ctx.exc(e); V(ctx, f"out-of-range-unexpected:{type(e).__name__}:{name}", f"{name} {case}: raised {e!r}", {"kind": "oor", "name": name}, repr(e)); return
        V(ctx, f"out-of-range-returned:{name}", f"{name} {case}: returned {r!r} although the value is outside the standard library's range", {"kind": "oor", "name": name}, repr(r))
    def must_return(name, fn, exp, case):
        ctx.ev(); ctx.count("out_of_range"); ctx.key(("edge", name, str(case)))
        try:
            r = fn()
        except Exception as e:  # noqa: BLE001
            ctx.exc(e); V(ctx, f"edge-raised:{name}", f"{name} {case}: raised {e!r} although the value is inside the standard library's range", {"kind": "edge", "name": name}, repr(e)); return
        if r != exp:
            V(ctx, f"edge-value:{name}", f"{name} {case}: {r!r} != {exp!r}", {"kind": "edge", "name": name}, repr(r), repr(exp))
    for ld in (LocalDate(0, 12, 31), LocalDate(-5, 1, 1), LocalDate.min_iso_value, LocalDate(-9998, 6, 1)):
        must_raise("LocalDate.to_date", ld.to_date, repr(ld))
        must_raise("LocalDateTime.to_naive_datetime", ld.at(LocalTime(23, 59, 59)).to_naive_datetime, repr(ld))
        must_raise("OffsetDateTime.to_aware_datetime", ld.at(LocalTime(12)).with_offset(Offset.zero).to_aware_datetime, repr(ld))
    for cal in gen.calendars():
        lo, hi = gen.cal_range(cal.id)
        if lo < 1 - UNIX - 1:
            x = gen.date_of(max(lo, -UNIX - 5), cal)
            must_raise("LocalDate.to_date", x.to_date, f"{cal.id} {x!r}")
            must_raise("LocalDateTime.to_naive_datetime", x.at_midnight().to_naive_datetime, f"{cal.id} {x!r}")
        if lo <= 1 - UNIX <= hi:
            x = gen.date_of(1 - UNIX, cal)
            must_return("LocalDate.to_date", x.to_date, dt.date(1, 1, 1), f"{cal.id} {x!r}")
            must_return("LocalDateTime.to_naive_datetime", x.at_midnight().to_naive_datetime, dt.datetime(1, 1, 1), f"{cal.id} {x!r}")
            must_return("LocalDateTime.to_naive_datetime", x.at(LocalTime(23, 59, 59, 999)).to_naive_datetime, dt.datetime(1, 1, 1, 23, 59, 59, 999000), f"{cal.id} {x!r} end of day")
        if lo <= MAXORD - UNIX <= hi:
            x = gen.date_of(MAXORD - UNIX, cal)
            must_return("LocalDate.to_date", x.to_date, dt.date(9999, 12, 31), f"{cal.id} {x!r}")
            must_return("LocalDateTime.to_naive_datetime", x.at(LocalTime.max_value).to_naive_datetime, dt.datetime.max, f"{cal.id} {x!r}")
    for i in (Instant.min_value, Instant.from_utc(0, 12, 31, 23, 59, 59), gen.ns_inst((1 - UNIX) * DAY - 1)):
        must_raise("Instant.to_datetime_utc", i.to_datetime_utc, repr(i))
    must_return("Instant.to_datetime_utc", Instant.from_utc(1, 1, 1, 0, 0).to_datetime_utc, dt.datetime(1, 1, 1, tzinfo=dt.timezone.utc), "0001-01-01T00:00Z")
    for off_h, us_back in ((-1, 0), (-18, 0), (-0.0167, 0), (-1, 3599 * 10**6), (-5, 4 * 3600 * 10**6 + 1)):
        aw = (dt.datetime.max - dt.timedelta(microseconds=us_back)).replace(tzinfo=dt.timezone(dt.timedelta(hours=off_h)))
        if aw.utcoffset() is not None and (dt.datetime.max - aw.replace(tzinfo=None)) < -aw.utcoffset():
            must_raise("Instant.from_aware_datetime (instant after 9999-12-31T23:59:59.999999999Z)", lambda aw=aw: Instant.from_aware_datetime(aw), repr(aw))
    must_return("Instant.to_datetime_utc", Instant.max_value.to_datetime_utc, dt.datetime.max.replace(tzinfo=dt.timezone.utc), "Instant.max_value")
    must_return("OffsetDateTime.to_aware_datetime", LocalDateTime(1, 1, 1, 0, 0).with_offset(Offset.from_hours(5)).to_aware_datetime,
                dt.datetime(1, 1, 1, tzinfo=dt.timezone(dt.timedelta(hours=5))), "0001-01-01T00:00+05")


def run(ctx, shard):
    from vf import gen
    rng = ctx.rng
    part = shard["part"]
    if part == "dates":
        for o in range(shard["lo"], shard["hi"] + 1):
            check_date(ctx, o)
        ctx.count("date", shard["hi"] - shard["lo"] + 1); ctx.distinct(shard["hi"] - shard["lo"] + 1)
        ctx.sample({"kind": "date", "o": shard["lo"]})
        for k in ("time", "naive", "aware", "timedelta", "out_of_range"):
            ctx.counters.setdefault(k, 0)
        return
    if part == "dates_sample":
        ords = list(range(1, 800)) + list(range(MAXORD - 800, MAXORD + 1)) + [rng.randint(1, MAXORD) for _ in range(60000)]
        for y in range(1, 10000, 7):
            ords += [dt.date(y, 1, 1).toordinal(), dt.date(y, 12, 31).toordinal(), dt.date(y, 3, 1).toordinal() - 1, dt.date(y, 3, 1).toordinal()]
        for o in ords:
            check_date(ctx, o)
            ctx.key(("date", o < 800, o > MAXORD - 800, o % 1461 < 3))
        ctx.count("date", len(ords)); ctx.sample({"kind": "date", "o": ords[900]})
        for cal in gen.calendars():
            lo, hi = gen.cal_range(cal.id)
            a, b = max(1, lo + UNIX), min(MAXORD, hi + UNIX)
            for o in [a, a + 1, b - 1, b] + [rng.randint(a, b) for _ in range(300)]:
                check_date_cal(ctx, cal.id, o); ctx.count("date")
        check_out_of_range(ctx)
        for k in ("time", "naive", "aware", "timedelta"):
            ctx.counters.setdefault(k, 0)
        return
    n = shard["n"]
    TOTAL_US = MAXORD * 86400 * 10**6
    cids = [c.id for c in gen.calendars()]
    for j in range(n):
        us = rng.choice([0, 1, 86400 * 10**6 - 1, 999999, 10**6]) if j % 10 == 0 else rng.randrange(86400 * 10**6)
        check_time(ctx, us, rng.choice([0, 1, 999, rng.randrange(1000)])); ctx.count("time")
    edges = [0, 1, TOTAL_US - 1, TOTAL_US - 10**6, 365 * 86400 * 10**6 - 1, 365 * 86400 * 10**6, 86400 * 10**6 - 1, 86400 * 10**6]
    for j in range(n):
        us = rng.choice(edges) if j % 12 == 0 else rng.randrange(TOTAL_US)
        check_naive(ctx, us, rng.choice(cids) if j % 3 == 0 else None, rng.choice([0, 0, 1, 999])); ctx.count("naive")
        if j < 2: ctx.sample({"kind": "naive", "us": us})
    offs = [0, 3600, -3600, 64800, -64800, 19800, 1, -1, 59, 64799, -64799]
    for j in range(n // 2):
        us = rng.choice(edges) if j % 10 == 0 else rng.randrange(TOTAL_US)
        off = rng.choice(offs) if j % 2 == 0 else (rng.randint(-64800, 64800) // 60 * 60 if j % 4 == 1 else rng.randint(-64800, 64800))
        check_aware(ctx, us, off); ctx.count("aware")
        if j % 4 == 0:
            check_aware_subsecond(ctx, us, rng.choice([500000, -1, 1, 19800 * 10**6 + 500000, -999999, rng.randint(-64800 * 10**6, 64800 * 10**6)]))
    TD_MIN = (dt.timedelta.min.days * 86400) * 10**6; TD_MAX = TD_MIN * -1 - 1 + 86400 * 10**6
    tds = [TD_MIN, TD_MAX, 0, 1, -1, 86400 * 10**6, -86400 * 10**6 + 1, TD_MIN + 1, TD_MAX - 1]
    for j in range(n // 2):
        us = rng.choice(tds) if j % 10 == 0 else (rng.randint(TD_MIN, TD_MAX) if j % 2 else rng.choice([-1, 1]) * rng.getrandbits(rng.choice([10, 30, 50, 60, 66])))
        us = max(TD_MIN, min(TD_MAX, us))
        check_timedelta(ctx, us, rng.choice([0, 1, 999, 500])); ctx.count("timedelta")
    for s in [0, 1, -1, 64800, -64800] + [rng.randint(-64800, 64800) for _ in range(300)]:
        check_offset_td(ctx, s)
    L18 = 18 * 3600 * 10**6
    for us in [1, -1, 999999, -999999, 1500000, -1500000, -250000 - 18000 * 10**6, L18, -L18, L18 + 1, -L18 - 1, L18 + 999999, -L18 - 999999, L18 + 10**6, -L18 - 10**6] + \
              [rng.randint(-L18 - 2 * 10**6, L18 + 2 * 10**6) for _ in range(300)] + [rng.choice([-1, 1]) * (rng.randrange(64800) * 10**6 + rng.choice([1, 500000, 999999])) for _ in range(100)]:
        check_offset_td_sub(ctx, us)
    check_out_of_range(ctx)
    check_threads(ctx)
    ctx.counters.setdefault("date", 0)


def replay(ctx, case):
    k = case["kind"]
    ctx.distinct(2)
    if k == "date": check_date(ctx, case["o"])
    elif k == "date_cal": check_date_cal(ctx, case["cal"], case["o"])
    elif k == "time": check_time(ctx, case["us"], case["extra_ns"])
    elif k == "naive": check_naive(ctx, case["us"], case.get("cal"), case.get("extra_ns", 0))
    elif k == "aware": check_aware(ctx, case["us"], case["off"])
    elif k == "aware_subsecond": check_aware_subsecond(ctx, case["us"], case["off_us"])
    elif k == "timedelta": check_timedelta(ctx, case["us"], case["extra_ns"])
    elif k == "offset_td": check_offset_td(ctx, case["s"])
    elif k == "offset_td_sub": check_offset_td_sub(ctx, case["us"])
    elif k == "threads": check_threads(ctx)
    else: check_out_of_range(ctx)
