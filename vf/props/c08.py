"""C08 — parse never raises; pattern creation fails only with InvalidPatternError (DESIGN §3 C08).

Exception-escape monitor at the client boundary around create / parse / ParseResult accessors.
"""
from __future__ import annotations

LEVEL = "exploration"
RULE = ("texts: valid texts of generated and fixed patterns; single-edit mutants (delete, duplicate, transpose, replace/insert digit, letter, sign, separator, non-ASCII digit, "
        "combining mark, NUL, surrogate); out-of-range fields written directly (month 13, day 31/30 Feb, hour 24, minute 60, offsets 18:00:01-23:59:59, year 10000, huge "
        "durations); digit runs of 1-400 digits; empty; whitespace; 100k-char strings; patterns: valid corpus + malformed mutants (unterminated quotes, trailing escape, "
        "lone/doubled %, repeated fields, every ASCII letter x 1-12 repeats, unbalanced/nested <>, bad ld</lt</l< bodies, empty); invariant + seeded cultures; "
        "distinct key = (type, create/parse, outcome class, text/pattern class)")
ASSUMPTIONS = ["allowed outcomes: create -> pattern | InvalidPatternError; parse -> ParseResult whose failure carries an UnparsableValueError"]
MIN_NT = {"quick": 300, "thorough": 1000}
REQUIRED = {"any": ["creates", "parses", "result_accessors", "success_values_validated", "synthetic_cultures_built"]}

TYPES = ["LocalTime", "LocalDate", "LocalDateTime", "Offset", "Duration", "AnnualDate", "Instant"]
FIXED = {
    "LocalTime": ["T", "t", "r", "o", "'{'HH:mm'}'", "HH''mm", 'HH""mm', "HH:mm:ss", "hh:mm tt", "H:m:s.FFFFFFFFF", "HH:mm:ss;fff", "HH'h'mm", "h:mm:ss t"],
    "LocalDate": ["D", "d", "R", "r", "M", "'{'uuuu-MM-dd'}'", "uuuu''MM''dd", "uuuu-MM-dd", "yyyy MMM dd g", "dd/MM/yy", "dddd d MMMM uuuu", "uuuu-MM-dd c", 'uuuu"x"MM', "yyyy-MM-dd c"],
    "LocalDateTime": ["F", "f", "G", "g", "o", "O", "r", "R", "s", "S", "'{0}'uuuu-MM-dd HH:mm", "ld<uuuu''MM''dd> lt<HH''mm>", "uuuu-MM-dd'T'HH:mm:ss", "ld<uuuu-MM-dd> lt<HH:mm>", "dd MMM yyyy hh:mm tt g", "yyyy-MM-dd HH:mm c"],
    "Offset": ["g", "G", "l", "m", "s", "L", "M", "S", "i", "I", "'{'+HH:mm'}'", "+HH''mm", "+HH:mm:ss", "-H:mm", "Z+HH", "+HH", "-HH:mm:ss"],
    "Duration": ["o", "j", "'{'-H:mm'}'", "-H''mm", "-D:hh:mm:ss.FFFFFFFFF", "H:mm", "S.fff", "+D HH", "-M:ss", "-S.fffffffff"],
    "Instant": ["g", "'{'uuuu-MM-dd HH:mm'}'", "uuuu''MM''dd HH", "uuuu-MM-dd'T'HH:mm:ss'Z'", "dd/MM/uuuu HH:mm:ss.fff", "yyyy-MM-dd HH:mm g"],
    "AnnualDate": ["G", "'{'MM-dd'}'", "MM''dd", "MM-dd", "d MMMM", "MMM d"],
}
ALPH = list("0123456789:/-.+ ,TZtzaApPmM\0٣３²①½൧𝟗é\u0301\ud800'\"\\%<>{}") + ["{0}", "{", "}", "{x}", "%s", "{0:d}", "12", "99", "00", "0000", "10000", "-", "24", "60", "61", "13", "31", "19", "23:59:59"]
DIRECT = {
    "LocalTime": ["24:00:00", "23:60:00", "23:59:60", "12:00:00.1234567890", "-1:00:00", "25:61:61"],
    "LocalDate": ["2023-13-01", "2023-02-30", "2023-02-31", "2023-04-31", "10000-01-01", "-10000-01-01", "2023-00-10", "2023-01-00", "0000-01-01", "99999999999-01-01"],
    "LocalDateTime": ["2023-02-30T12:00:00", "2023-12-31T24:00:00", "2023-12-31T23:60:00", "10000-01-01T00:00:00"],
    "Offset": ["+18:00:01", "+19", "+19:00", "-23:59:59", "+23:59:59", "+24", "+18:60", "-18:00:01", "+99", "+18:00:60", "+20:30", "-21"],
    "Duration": ["1073741824:00:00:00", "-1073741825:00:00:00", "99999999999999999999:00:00:00", "0:24:00:00", "0:00:60:00", "9" * 40],
    "Instant": ["10000-01-01T00:00:00Z", "-9999-01-01T00:00:00Z", "2023-02-30T00:00:00Z"],
    "AnnualDate": ["02-30", "13-01", "00-10", "04-31", "02-29"],
}


# embedded date / time patterns given by every standard letter of the embedded type (and a custom one), in both orders
for _d in ("R", "r", "d", "D", "uuuu'-'MM'-'dd"):
    for _t in ("o", "O", "r", "t", "T", "HH':'mm"):
        FIXED["LocalDateTime"] += [f"ld<{_d}>'T'lt<{_t}>", f"lt<{_t}> ld<{_d}>"]
FIXED["LocalDateTime"] += ["l<F>", "l<s> 'x'", "'at' l<o>"]
FIXED["Instant"] += ["ld<R>'T'lt<o>'Z'", "ld<r> lt<O>", "lt<r> ld<D>", "ld<d> lt<T>"]


def shards(tier, seed):
    q = tier == "quick"
    out = []
    for t in TYPES:
        for i in range(2 if q else 10):
            out.append({"name": f"{t}:{i}", "type": t, "cultures": 5 if q else 16, "gen_patterns": 25 if q else 80, "mutants": 30 if q else 80})
    out.append({"name": "malformed-patterns", "type": "malformed"})
    out.append({"name": "calendar-template-edges", "type": "edges"})
    return out


def escape(ctx, stage, tname, e, case, what):
    from vf.ctx import exc_key
    ctx.exc(e)
    ctx.V(f"C08:{stage}:{exc_key(e)}", f"{tname} {stage}: {what} raised {type(e).__name__}: {str(e)[:140]}", case, repr(e)[:200])


def text_mutants(rng, t, n):
    out = set()
    for _ in range(n):
        s = list(t)
        if not s: break
        i = rng.randrange(len(s)); op = rng.randrange(5)
        if op == 0: del s[i]
        elif op == 1: s.insert(i, s[i])
        elif op == 2 and len(s) > 1:
            j = min(i + 1, len(s) - 1); s[i], s[j] = s[j], s[i]
        elif op == 3: s[i] = rng.choice(ALPH)
        else: s.insert(i, rng.choice(ALPH))
        out.add("".join(s))
    out |= {t.replace("1", "9"), t.replace("0", "9"), t.replace("2", "7"), t + "{0}", "{" + t + "}", t.replace("0", "{", 1)}
    out |= {"", " ", "\0", t + "\0x", t * 3, "9" * 50, "-" + t, "+" + t, t + " ", " " + t, "1" * 400, t.upper(), t.lower(), t[:-1], t[1:], "\ud800", "٣٣:٣٣", "３" * 4}
    for k in (1, 2, 3, 9, 10, 11, 19, 20, 40, 100):
        out.add(str(rng.getrandbits(4 * k))[:k].rjust(k, "1"))
    return out


def valid(value, tname):
    """Result-validity oracle for a successfully parsed value (cheap structural checks through public accessors)."""
    from vf import gen
    if tname == "LocalTime": return 0 <= value.nanosecond_of_day < 86400 * 10**9
    if tname == "Offset": return -64800 <= value.seconds <= 64800
    if tname == "Duration": return gen.DUR_MIN_NS <= value.to_nanoseconds() <= gen.DUR_MAX_NS
    if tname == "Instant": return gen.INST_MIN_NS <= gen.inst_ns(value) <= gen.INST_MAX_NS
    if tname == "AnnualDate": return 1 <= value.month <= 12 and 1 <= value.day <= 31
    from pyoda_time import LocalDate
    d = value if tname == "LocalDate" else value.date
    z = LocalDate(d.year, d.month, d.day, d.calendar)
    lo, hi = gen.cal_range(d.calendar.id)
    ok = z == d and lo <= gen.day_of(d) <= hi
    if tname == "LocalDateTime":
        ok = ok and 0 <= value.nanosecond_of_day < 86400 * 10**9
    return ok


def judge_parse(ctx, tname, p, pt, cname, text, cls):
    from pyoda_time.text import ParseResult, UnparsableValueError
    case = {"kind": "parse", "type": tname, "pattern": pt, "culture": cname, "text": text if len(text) < 300 else text[:40] + f"...({len(text)} chars)"}
    ctx.ev(); ctx.counters["parses"] += 1
    try:
        r = p.parse(text)
    except BaseException as e:  # noqa: BLE001
        escape(ctx, "parse", tname, e, case, f"pattern {pt!r} ({cname}) parse({case['text']!r})"); return
    if not isinstance(r, ParseResult):
        ctx.V(f"C08:parse-returned-non-result:{tname}", f"{tname} pattern {pt!r}: parse returned {type(r).__name__}", case); return
    ctx.counters["result_accessors"] += 1
    try:
        ok = r.success
        if ok:
            v = r.value
            ok2, v2 = r.try_get_value(None)
            if not ok2 or v2 != v:
                ctx.V(f"C08:try_get_value-inconsistent:{tname}", f"{tname} pattern {pt!r}: success but try_get_value -> ({ok2}, ...)", case)
            ctx.counters["success_values_validated"] += 1
            try:
                if not valid(v, tname):
                    ctx.V(f"C08:success-with-invalid-value:{tname}", f"{tname} pattern {pt!r} ({cname}): parse({case['text']!r}) succeeded with an invalid value", case)
            except Exception as e:  # noqa: BLE001
                ctx.exc(e); ctx.V(f"C08:success-with-invalid-value:{tname}", f"{tname} pattern {pt!r} ({cname}): parse({case['text']!r}) succeeded but the value fails validation: {e!r}", case)
            ctx.key((tname, "parse", "success", cls, pt[:40]))
        else:
            ex = r.exception
            if not isinstance(ex, UnparsableValueError):
                ctx.V(f"C08:failure-without-UnparsableValueError:{tname}", f"{tname} pattern {pt!r}: failed result carries {type(ex).__name__}", case)
            ok2, v2 = r.try_get_value(None)
            if ok2:
                ctx.V(f"C08:try_get_value-inconsistent:{tname}", f"{tname} pattern {pt!r}: failure but try_get_value -> True", case)
            try:
                r.value
                ctx.V(f"C08:failure-value-did-not-raise:{tname}", f"{tname} pattern {pt!r}: .value of a failed result returned", case)
            except UnparsableValueError:
                pass
            ctx.key((tname, "parse", "failure", cls, pt[:40]))
    except BaseException as e:  # noqa: BLE001
        escape(ctx, "result-accessor", tname, e, case, f"pattern {pt!r} ({cname}) result of parse({case['text']!r})")


def judge_create(ctx, tname, P, pt, culture, cls):
    from pyoda_time.text import InvalidPatternError
    case = {"kind": "create", "type": tname, "pattern": pt, "culture": culture.name}
    ctx.ev(); ctx.counters["creates"] += 1
    try:
        p = P.create(pt, culture)
        ctx.key((tname, "create", "ok", cls)); return p
    except InvalidPatternError as e:
        ctx.exc(e); ctx.key((tname, "create", "invalid", cls)); return None
    except BaseException as e:  # noqa: BLE001
        escape(ctx, "create", tname, e, case, f"create({pt!r}, {culture.name!r})"); return None


def pattern_mutants(rng, pt, n):
    out = set()
    PAL = list("yuMdcgHhmsfFtTDSlZ%'\"\\<>:/-.;+ {}") + ["ld<", "lt<", "l<", ">", "%%", "''", "\\", "{0}", "{", "}"]
    for _ in range(n):
        s = list(pt)
        if not s: break
        i = rng.randrange(len(s)); op = rng.randrange(4)
        if op == 0: del s[i]
        elif op == 1: s.insert(i, s[i])
        elif op == 2: s[i] = rng.choice(PAL)
        else: s.insert(i, rng.choice(PAL))
        out.add("".join(s))
    for f in ("dd", "MM", "uuuu", "c", "d", "M", "yyyy", "HH", "mm", "ss", "tt", "g", "ddd", "MMMM", "HH:mm"):
        out |= {f"ld<uuuu'-'MM'-'dd> {f}", f"{f} ld<uuuu'-'MM'-'dd>", f"lt<HH':'mm> {f}", f"{f} lt<HH':'mm>", f"ld<uuuu'-'MM'-'dd> lt<HH':'mm> {f}", f"ld<uuuu'-'MM'-'dd> {f} lt<HH':'mm>"}
    out |= {"", "'", '"', "\\", "%", "%%", pt + "'", pt + '"', pt + "\\", pt + pt, "'" + pt, "ld<", "lt<", "l<", "ld<>", "lt<>", "l<>", "ld<" + pt, "ld<" + pt + ">", "lt<" + pt + ">",
            "l<" + pt + ">", "ld<ld<" + pt + ">>", "<" + pt + ">", pt + ">", pt + "<", "\0", pt + "\0", "\ud800", pt * 20,
            "{", "}", "{}", "{0}", "{" + pt, pt + "}", "{" + pt + "}", "%{", "{{", "}}"} | set("abcdefghijklmnopqrstuvwxyzABCDEFGHIJKLMNOPQRSTUVWXYZ0123456789!#$&()*,=?@[]^_`|~")
    return out


def run_type(ctx, tname, n_cult, n_gen, n_mut):
    from pyoda_time import CalendarSystem
    from vf import gen, textgen as G
    from vf.props.c07 import arbitrary_values
    rng = ctx.rng
    P = G.pattern_class(tname)
    cals = list(gen.calendars())
    for culture in G.cultures(rng, n_cult):
        try:
            fi = G.fmt_info(culture)
        except Exception as e:  # noqa: BLE001
            ctx.exc(e); continue
        pats = list(FIXED[tname])
        for _ in range(n_gen):
            cal = CalendarSystem.iso if rng.random() < 0.5 else rng.choice(cals)
            try:
                if tname == "LocalTime": pt, _ = G.gen_time(rng, fi)
                elif tname == "LocalDate": pt, _ = G.gen_date(rng, fi, cal)
                elif tname == "LocalDateTime": pt, _ = G.gen_datetime(rng, fi, cal)
                elif tname == "Offset": pt, _ = G.gen_offset(rng, fi)
                elif tname == "Duration": pt, _ = G.gen_duration(rng, fi)
                elif tname == "AnnualDate": pt, _ = G.gen_annual(rng, fi)
                else: pt, _ = G.gen_datetime(rng, fi, CalendarSystem.iso, embedded=False)
                pats.append(pt)
            except Exception as e:  # noqa: BLE001
                ctx.exc(e)
        for pt in pats:
            p = judge_create(ctx, tname, P, pt, culture, "valid-corpus")
            if p is None:
                continue
            texts = set(DIRECT[tname])
            for _ in range(2):
                cal = rng.choice(cals) if tname in ("LocalDate", "LocalDateTime") and "c" in pt else None
                v = arbitrary_values(rng, tname, cal)
                try:
                    t = p.format(v)
                except Exception as e:  # noqa: BLE001   (formatting is not this property's subject)
                    ctx.exc(e); continue
                texts.add(t); texts |= text_mutants(rng, t, n_mut)
            for t in texts:
                judge_parse(ctx, tname, p, pt, culture.name, t, "mutant")
            if rng.random() < 0.02:
                judge_parse(ctx, tname, p, pt, culture.name, "7" * 100000, "huge")
                judge_parse(ctx, tname, p, pt, culture.name, " " * 100000, "huge")
        if len(ctx.samples) < 2:
            ctx.sample({"type": tname, "culture": culture.name, "patterns": pats[-2:], "mutant_alphabet": "".join(a for a in ALPH[:12])})


def run_malformed(ctx):
    from pyoda_time._compatibility._culture_info import CultureInfo
    from vf import textgen as G
    rng = ctx.rng
    inv = CultureInfo.invariant_culture
    cults = G.cultures(rng, 3)
    for tname in TYPES:
        P = G.pattern_class(tname)
        from vf.props.c07 import arbitrary_values
        for pt in FIXED[tname]:
            for m in pattern_mutants(rng, pt, 40):
                cu = rng.choice(cults)
                p = judge_create(ctx, tname, P, m, cu, "malformed-mutant")
                if p is not None and rng.random() < 0.5:
                    # an accepted pattern must be usable: parse its own output and hostile neighbours of it
                    try:
                        t = p.format(arbitrary_values(rng, tname))
                    except Exception as e:  # noqa: BLE001
                        ctx.exc(e); continue
                    for txt in [t] + list(text_mutants(rng, t, 6))[:10] + [t.replace("01", "30").replace("02", "13"), t + " 30", t + " 13", t + " Um Al Qura", t + " 99"]:
                        judge_parse(ctx, tname, p, m, cu.name, txt, "accepted-mutant-pattern")
        for L in "abcdefghijklmnopqrstuvwxyzABCDEFGHIJKLMNOPQRSTUVWXYZ":
            for n in (1, 2, 3, 4, 5, 9, 10, 12):
                for pre in ("", "%", "-", "+"):
                    judge_create(ctx, tname, P, pre + L * n, inv, "letter-run")
        for pt in ("yyyy yyyy", "MM MM", "dd d", "HH hh", "mm m", "ss s", "ff FF", "tt t", "g g", "c c", "uuuu yyyy", "HH:mm:ss.fffffffffffff", "+HH -HH", "D H", "hh H"):
            judge_create(ctx, tname, P, pt, inv, "repeated-field")
    # synthetic cultures: designators and separators that no stock culture has
    def synth(am, pm, tsep=":", dsep="/"):
        c = CultureInfo.invariant_culture.clone()
        c.date_time_format.am_designator = am; c.date_time_format.pm_designator = pm
        c.date_time_format.time_separator = tsep
        try:
            c.date_time_format.date_separator = dsep
        except AttributeError:
            pass   # no setter in this port
        ctx.counters["synthetic_cultures_built"] += 1
        return CultureInfo.read_only(c) if rng.random() < 0.5 else c
    from pyoda_time import LocalDateTime, LocalTime
    for am, pm, tsep, dsep in (("", "", ":", "/"), ("AM", "", ":", "/"), ("", "PM", ":", "/"), ("a", "ap", ".", "."), ("Foo", "Foo", ":", "-"), ("x", "y", "::", "//"), ("1", "2", ":", "/")):
        try:
            cu = synth(am, pm, tsep, dsep)
        except Exception as e:  # noqa: BLE001
            ctx.exc(e); continue
        for tname, pats, vals in (("LocalTime", ["mm' 'tt", "tt' 'mm:ss", "t", "tt", "%t", "hh:mm tt", "HH:mm tt", "h t", "hh", "HH:mm:ss", "t hh", "T", "t"],
                                  [LocalTime(0, 30), LocalTime(11, 59, 59), LocalTime(12, 0), LocalTime(23, 5)]),
                                 ("LocalDateTime", ["uuuu/MM/dd mm tt", "uuuu-MM-dd hh:mm tt", "ld<uuuu/MM/dd> lt<mm tt>", "uuuu/MM/dd HH:mm", "G", "F"],
                                  [LocalDateTime(2024, 2, 29, 0, 30), LocalDateTime(2024, 12, 31, 23, 59)])):
            P = G.pattern_class(tname)
            for pt in pats:
                p = judge_create(ctx, tname, P, pt, cu, "synthetic-culture")
                if p is None:
                    continue
                for v in vals:
                    try:
                        t = p.format(v)
                    except Exception as e:  # noqa: BLE001
                        ctx.exc(e); continue
                    for txt in [t, t + " ", " " + t, t.upper(), t + am, t + pm, t.replace("30", "30 "), "30 ", "30", "5", ""] + list(text_mutants(rng, t, 6))[:8]:
                        judge_parse(ctx, tname, p, pt, f"synthetic(am={am!r},pm={pm!r})", txt, "synthetic-culture")
    ctx.sample({"malformed_examples": ["ld<uuuu", "%", "'unterminated", "HH hh", "yyyyyyyyy", "ld<uuuu'-'MM'-'dd> dd"], "synthetic_cultures": ["no AM/PM", "AM only", "PM only", "shared prefix", "identical", "multi-char separators"]})
    ctx.counters.setdefault("parses", 0)


def run_edges(ctx):
    """Targeted hostile inputs: calendar ids read from the text against templates of other calendars, year/day fields at and
    beyond every calendar's range, hour 24 on the last day, month 13+ templates."""
    from pyoda_time import LocalDate
    from pyoda_time._compatibility._culture_info import CultureInfo
    from vf import gen, textgen as G
    rng = ctx.rng
    inv = CultureInfo.invariant_culture
    cals = list(gen.calendars())
    LD = G.pattern_class("LocalDate"); LDT = G.pattern_class("LocalDateTime"); INST = G.pattern_class("Instant")
    templates = [None]
    for cal in cals:
        lo, hi = gen.cal_range(cal.id)
        templates += [gen.date_of(lo, cal), gen.date_of(hi, cal)]
        y = rng.randint(cal.min_year, cal.max_year); m = cal.get_months_in_year(y)
        templates.append(LocalDate(y, m, cal.get_days_in_month(y, m), cal))
    date_pats = ["c MM-dd", "c dd", "c uuuu", "c uuuu-MM-dd", "c MM", "uuuu-MM-dd c", "c M d", "c uuuu MMMM d", "c ddd", "MM-dd", "dd", "uuuu", "yyyy-MM-dd", "yy-MM-dd", "yyyy g", "MMMM d", "dddd"]
    for pt in date_pats:
        p0 = judge_create(ctx, "LocalDate", LD, pt, inv, "edges")
        if p0 is None: continue
        for tv in rng.sample(templates, 14) + [None]:
            p = p0
            if tv is not None:
                try:
                    p = p0.with_template_value(tv)
                except Exception as e:  # noqa: BLE001   (not create/parse: recorded, not judged)
                    ctx.exc(e); continue
            texts = set()
            for cal in cals:
                y1, y2 = cal.min_year, cal.max_year
                for y in (y1, y2, y1 - 1, y2 + 1, 2000, 1, 9999, -9998, -9999):
                    for md in ("01-01", "13-01", "12-30", "19-19", "02-30", "06-31"):
                        mm, dd = md.split("-")
                        texts.add(pt.replace("c", cal.id).replace("uuuu", str(y)).replace("yyyy", str(abs(y))).replace("yy", str(abs(y) % 100).rjust(2, "0")).replace("MMMM", "January")
                                  .replace("MM", mm).replace("dddd", "Monday").replace("ddd", "Mon").replace("dd", dd).replace("M", str(int(mm))).replace("d", str(int(dd))).replace("g", "A.D."))
            for t in rng.sample(sorted(texts), min(len(texts), 160)):
                judge_parse(ctx, "LocalDate", p, pt, "", t, "calendar-template-edge")
    for pt in ("uuuu-MM-dd HH:mm:ss", "uuuu-MM-dd'T'HH:mm", "c uuuu-MM-dd HH:mm", "ld<uuuu-MM-dd> lt<HH:mm:ss>", "o", "r"):
        p0 = judge_create(ctx, "LocalDateTime", LDT, pt, inv, "edges")
        if p0 is None: continue
        for cal in cals:
            lo, hi = gen.cal_range(cal.id)
            for d in (hi, lo, hi - 1):
                x = gen.date_of(d, cal)
                try:
                    p = p0 if "c" in pt.replace("'T'", "") else p0.with_template_value(x.at_midnight())
                    base = p.format(x.at_midnight())
                except Exception as e:  # noqa: BLE001
                    ctx.exc(e); continue
                for a, b in (("00:00:00", "24:00:00"), ("00:00", "24:00"), ("00:00:00", "24:00:01"), ("00:00", "23:60"), ("T00:00:00", "T24:00:00")):
                    if a in base:
                        judge_parse(ctx, "LocalDateTime", p, pt, "", base.replace(a, b), "hour-24-edge")
    # thousands of distinct pattern texts through one shared read-only culture, with rejected texts in between: every valid one still creates
    for nm in ("en-GB", "fr-FR"):
        try:
            shared = CultureInfo.get_culture_info(nm)
        except Exception as e:  # noqa: BLE001
            ctx.exc(e); continue
        LTc = G.pattern_class("LocalTime")
        for k in range(4600 if ctx.tier == "quick" else 9000):
            if k % 900 == 0:
                for bad in ("HH:mm'unterminated", "HH:mm\\", "%%", "HH" * 3):
                    judge_create(ctx, "LocalTime", LTc, bad, shared, "cache-run")
            judge_create(ctx, "LocalTime", LTc, f"HH:mm:ss' #{k}'", shared, "cache-run")
    # patterns that leave fields to the template, with templates whose fields do not fit every value the text can name
    from pyoda_time import AnnualDate, LocalTime
    AD = G.pattern_class("AnnualDate"); LT = G.pattern_class("LocalTime")
    for pt in ("MM", "MMMM", "MMM", "%M", "dd", "%d", "MM-dd"):
        p0 = judge_create(ctx, "AnnualDate", AD, pt, inv, "edges")
        if p0 is None: continue
        for tv in (AnnualDate(1, 31), AnnualDate(3, 30), AnnualDate(2, 29), AnnualDate(12, 31), AnnualDate(2, 1)):
            try:
                p = p0.with_template_value(tv)
            except Exception as e:  # noqa: BLE001
                ctx.exc(e); continue
            for t in ["02", "04", "2", "4", "13", "00", "31", "30", "29", "February", "Feb", "April", "Apr", "02-30", "04-31", "02-29", "12-31"]:
                judge_parse(ctx, "AnnualDate", p, pt, "", t, "template-field-edge")
    for pt in ("MM", "MMMM", "dd", "uuuu", "uuuu-MM", "MM-dd", "yyyy"):
        p0 = judge_create(ctx, "LocalDate", LD, pt, inv, "edges")
        if p0 is None: continue
        for tv in (LocalDate(2000, 1, 31), LocalDate(2024, 2, 29), LocalDate(2023, 3, 30), LocalDate(9999, 12, 31), LocalDate(-9998, 1, 1)):
            try:
                p = p0.with_template_value(tv)
            except Exception as e:  # noqa: BLE001
                ctx.exc(e); continue
            for t in ["02", "04", "13", "00", "31", "30", "February", "April", "2023", "2024", "9999", "-9998", "0000", "2023-02", "2024-02", "02-30", "02-29", "04-31", "10000"]:
                judge_parse(ctx, "LocalDate", p, pt, "", t, "template-field-edge")
    for pt in ("HH", "mm", "ss", "hh", "tt", "HH:mm", "%h", "h tt"):
        p0 = judge_create(ctx, "LocalTime", LT, pt, inv, "edges")
        if p0 is None: continue
        for tv in (LocalTime(23, 59, 59), LocalTime(0, 0, 0), LocalTime(12, 30, 0), LocalTime(13, 0, 0)):
            try:
                p = p0.with_template_value(tv)
            except Exception as e:  # noqa: BLE001
                ctx.exc(e); continue
            for t in ["00", "12", "13", "23", "24", "59", "60", "AM", "PM", "12 AM", "0 PM", "13 PM", "23:60", "24:00"]:
                judge_parse(ctx, "LocalTime", p, pt, "", t, "template-field-edge")
    for pt in ("g", "uuuu-MM-dd'T'HH:mm:ss'Z'"):
        p = judge_create(ctx, "Instant", INST, pt, inv, "edges")
        if p is None: continue
        for t in ("9999-12-31T24:00:00Z", "-9998-01-01T00:00:00Z", "-9999-12-31T24:00:00Z", "9999-12-31T23:59:60Z", "10000-01-01T00:00:00Z"):
            judge_parse(ctx, "Instant", p, pt, "", t, "hour-24-edge")
    ctx.sample({"edges": ["c MM-dd with 'Badi 01-01'", "9999-12-31 24:00:00", "templates in every calendar incl. last month of a year"]})


def run(ctx, shard):
    for k in REQUIRED["any"]:
        ctx.counters.setdefault(k, 0)
    if shard["type"] == "edges":
        run_edges(ctx); return
    if shard["type"] == "malformed":
        run_malformed(ctx)
        # make sure accessor monitors are exercised in this shard as well
        from pyoda_time._compatibility._culture_info import CultureInfo
        from vf import textgen as G
        p = G.pattern_class("LocalTime").create("HH:mm", CultureInfo.invariant_culture)
        judge_parse(ctx, "LocalTime", p, "HH:mm", "", "12:34", "valid"); judge_parse(ctx, "LocalTime", p, "HH:mm", "", "xx", "mutant")
    else:
        run_type(ctx, shard["type"], shard["cultures"], shard["gen_patterns"], shard["mutants"])


def replay(ctx, case):
    from pyoda_time._compatibility._culture_info import CultureInfo
    from vf import textgen as G
    ctx.distinct(2)
    for k in REQUIRED["any"]:
        ctx.counters.setdefault(k, 0)
    tname = case["type"]; P = G.pattern_class(tname)
    cname = case.get("culture") or ""
    culture = CultureInfo.invariant_culture if not cname else CultureInfo(cname)
    if case["kind"] == "create":
        judge_create(ctx, tname, P, case["pattern"], culture, "replay")
    else:
        p = judge_create(ctx, tname, P, case["pattern"], culture, "replay")
        if p is not None:
            judge_parse(ctx, tname, p, case["pattern"], cname, case["text"], "replay")
