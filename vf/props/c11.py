"""C11 — offset/zoned values keep instant, local time, offset and calendar in step (DESIGN §3 C11).

Model: (instant_ns, offset_s, calendar id[, zone]); local = instant + offset; fields via the day mapping.
"""
from __future__ import annotations

LEVEL = "exploration"
RULE = ("instants at calendar range ends, +-1 ns around local midnight in the chosen offset, seeded; offsets: all multiples of 15 min sample, +-18h, seeded seconds; "
        "every calendar; 12 seeded zones incl. Apia/Lord_Howe/Kolkata; durations from a lattice (0, +-1 ns, +-day, seeded up to 10^16 ns); distinct key = "
        "(operation, calendar, local-day carry count, offset sign, zone)")
ASSUMPTIONS = ["integer model local = instant + offset", "C01 day mapping for local fields", "zone offsets taken from zone.get_utc_offset (C04/C06 judge those)"]
MIN_NT = {"quick": 800, "thorough": 1500}
REQUIRED = {"any": ["construct", "with_offset", "with_calendar", "adjusters", "duration_arith", "difference", "zoned", "offset_date_time_parts"]}

DAY = 86400 * 10**9


def shards(tier, seed):
    from pyoda_time import CalendarSystem
    n = 30 if tier == "quick" else 500
    return [{"name": f"cal:{cid}", "cal": cid, "n": n * (4 if cid in ("ISO", "Gregorian") else 1)} for cid in CalendarSystem.ids]


def run(ctx, shard):
    from pyoda_time import IsoDayOfWeek
    from pyoda_time import (DateAdjusters, DateTimeZone, DateTimeZoneProviders, Duration, LocalTime, Offset, OffsetDate, OffsetDateTime, OffsetTime, TimeAdjusters,
                            ZonedDateTime)
    from vf import gen
    from vf.ctx import exc_key
    for k in REQUIRED["any"]:
        ctx.counters.setdefault(k, 0)
    rng = ctx.rng
    cid = shard["cal"]; cal = gen.cal_by_id(cid); lo, hi = gen.cal_range(cid)
    cals = gen.calendars()
    IMIN, IMAX = gen.INST_MIN_NS, gen.INST_MAX_NS
    ins, ns_of = gen.ns_inst, gen.inst_ns
    offs = [0, 1, -1, 64800, -64800, 3600, -3600, 19800, -34200, 43199, 900, -900, 45 * 60] + [rng.randint(-64800, 64800) for _ in range(8)] + [rng.randrange(-72, 73) * 900 for _ in range(6)]
    tz = DateTimeZoneProviders.tzdb
    zone_ids = ["Europe/London", "America/New_York", "Pacific/Apia", "Asia/Kolkata", "Australia/Lord_Howe", "UTC", "Pacific/Kiritimati", "America/St_Johns", "Africa/Casablanca", "Asia/Kathmandu"]
    all_ids = list(tz.ids)
    zones = [tz[i] for i in zone_ids if i in all_ids] + [tz[rng.choice(all_ids)] for _ in range(2)] + [DateTimeZone.for_offset(Offset.from_seconds(rng.randint(-64800, 64800)))]

    def V(k, what, case, obs=None, exp=None):
        ctx.V(f"C11:{k}", f"{cid}: {what}", dict(case, cal=cid), obs, exp)

    def local_of(x):
        return gen.day_of(x.date) * DAY + x.nanosecond_of_day

    import inspect
    from pyoda_time import LocalDateTime, LocalTime
    _acc_cache = {}

    def shared_accessors(T, base):
        k_ = (T, base)
        if k_ not in _acc_cache:
            _acc_cache[k_] = [nm for nm in dir(base) if not nm.startswith("_") and isinstance(inspect.getattr_static(base, nm, None), property)
                              and isinstance(inspect.getattr_static(T, nm, None), property) and nm not in ("date", "time_of_day", "local_date_time")]
        return _acc_cache[k_]

    def in_step(r, what, case):
        """A derived value must be self-consistent: local = instant + offset (in its own calendar), and every component accessor it shares with
        its local date-time / time of day reports the same as that local value does."""
        ctx.ev(); ctx.count("derived_values")
        try:
            if hasattr(r, "to_instant") and hasattr(r, "local_date_time"):
                if local_of(r.local_date_time) != ns_of(r.to_instant()) + r.offset.seconds * 10**9:
                    V(f"derived-out-of-step:{what}", f"{what}: local {local_of(r.local_date_time)} != instant {ns_of(r.to_instant())} + offset {r.offset.seconds} s", case)
                if hasattr(r, "to_offset_date_time") or isinstance(r, OffsetDateTime):
                    o2 = OffsetDateTime(r.local_date_time, r.offset)
                    if ns_of(o2.to_instant()) != ns_of(r.to_instant()):
                        V(f"derived-out-of-step:{what}", f"{what}: to_instant() = {ns_of(r.to_instant())} but a value rebuilt from its own local date-time and offset has instant {ns_of(o2.to_instant())}", case)
            base = r.local_date_time if hasattr(r, "local_date_time") else (r.time_of_day if hasattr(r, "time_of_day") else r.date)
            for nm in shared_accessors(type(r), type(base)):
                a_, b_ = getattr(r, nm), getattr(base, nm)
                if a_ != b_ and not (a_ is b_):
                    V(f"accessor-out-of-step:{type(r).__name__}.{nm}", f"{what}: {type(r).__name__}.{nm} = {a_!r} but its local value reports {b_!r}", case, repr(a_), repr(b_))
        except Exception as ex:  # noqa: BLE001
            ctx.exc(ex); V(f"derived-raised:{what}:{exc_key(ex)}", f"{what}: reading the derived value raised {ex!r}", case, repr(ex))

    for it in range(shard["n"]):
        os_ = rng.choice(offs); o = Offset.from_seconds(os_)
        # choose the local day first so that range ends are hit, then derive the instant
        d = rng.choice([lo + 1, hi - 1, lo + 2, hi - 2, rng.randint(lo + 2, hi - 2), rng.randint(lo + 2, hi - 2)])
        if cid in ("ISO", "Gregorian") and it % 3 == 1:
            # the ends of the 1900-2100 window that the day-number conversion treats specially, their leap-day neighbourhoods, and the years either side
            import datetime as _dt
            d = rng.choice([_dt.date(y_, m_, d_).toordinal() - 719163 + rng.randint(-1, 1) for (y_, m_, d_) in
                            ((1900, 1, 1), (1900, 2, 28), (1900, 3, 1), (1900, 12, 31), (1899, 12, 31), (2000, 2, 29), (2100, 1, 1), (2100, 2, 28), (2100, 3, 1), (2100, 6, 15), (2100, 12, 31), (2101, 1, 1), (2099, 12, 31))])
        t = rng.choice([0, 1, DAY - 1, rng.randrange(DAY), rng.randrange(86400) * 10**9, rng.randrange(24) * 3600 * 10**9, (-os_ * 10**9) % DAY, (-os_ * 10**9 - 1) % DAY, (os_ * 10**9) % DAY, (os_ * 10**9 - 1) % DAY, (os_ * 10**9 + 1) % DAY])   # incl. local times whose instant is exactly a UTC midnight
        n = d * DAY + t - os_ * 10**9
        if not IMIN + 2 * DAY <= n <= IMAX - 2 * DAY:
            n = max(IMIN + 2 * DAY, min(IMAX - 2 * DAY, n))
        L = n + os_ * 10**9; ed, et = divmod(L, DAY)
        if not lo <= ed <= hi:
            continue
        i = ins(n)
        case = {"kind": "odt", "n": n, "off": os_}
        ctx.ev(); ctx.count("construct"); ctx.key(("construct", cid, (os_ > 0) - (os_ < 0), ed in (lo, lo + 1, hi, hi - 1), et in (0, DAY - 1)))
        try:
            odt = i.with_offset(o, cal)
        except Exception as e:  # noqa: BLE001
            ctx.exc(e); V(f"with_offset-raised:{exc_key(e)}", f"Instant({n}).with_offset({os_}s) raised {e!r}", case, repr(e)); continue
        if (gen.day_of(odt.date), odt.nanosecond_of_day) != (ed, et):
            V("construct-local", f"Instant({n}).with_offset({os_}s): local = day {gen.day_of(odt.date)} ns {odt.nanosecond_of_day}; instant+offset = day {ed} ns {et}", case, (gen.day_of(odt.date), odt.nanosecond_of_day), (ed, et))
        if ns_of(odt.to_instant()) != n:
            V("construct-instant", f"Instant({n}).with_offset({os_}s).to_instant() = {ns_of(odt.to_instant())}", case, ns_of(odt.to_instant()), n)
        elif odt.to_instant() != i or hash(odt.to_instant()) != hash(i) or odt.to_instant() < i or i < odt.to_instant():
            V("construct-instant-not-normal", f"Instant({n}).with_offset({os_}s).to_instant() holds {n} ns but does not compare/hash equal to the instant it came from", case)
        if odt.calendar is not cal or odt.offset != o:
            V("construct-calendar-offset", f"with_offset lost calendar or offset: {odt.calendar.id}, {odt.offset.seconds}", case)
        ldt = odt.local_date_time
        exp_ymd = gen.ymd(gen.date_of(ed, cal))
        if (odt.year, odt.month, odt.day) != exp_ymd or gen.ymd(ldt.date) != exp_ymd or ldt.nanosecond_of_day != et:
            V("construct-fields", f"fields {(odt.year, odt.month, odt.day)} / local_date_time {ldt!r}; model {exp_ymd}", case)
        for nm, v2 in (("ldt.with_offset", ldt.with_offset(o)), ("OffsetDateTime(ldt, o)", OffsetDateTime(ldt, o)), ("OffsetDate.at", OffsetDate(ldt.date, o).at(ldt.time_of_day)),
                       ("OffsetTime.on", OffsetTime(ldt.time_of_day, o).on(ldt.date))):
            ctx.ev()
            if v2 != odt or ns_of(v2.to_instant()) != n or v2.calendar is not cal:
                V(f"construct-route:{nm}", f"{nm} gives {v2!r} (instant {ns_of(v2.to_instant())}), expected the same value as Instant.with_offset ({n})", case)
        # parts
        ctx.count("offset_date_time_parts"); ctx.ev()
        od = odt.to_offset_date(); ot = odt.to_offset_time()
        in_step(odt, "Instant.with_offset", case); in_step(od, "to_offset_date", case); in_step(ot, "to_offset_time", case)
        if cid == "ISO":
            # the spellings that take no calendar (and therefore go from the day number straight to an ISO date) give the same value
            try:
                routes = [("Instant.with_offset(o)", i.with_offset(o)), ("Instant.in_utc().to_offset_date_time().with_offset(o)", i.in_utc().to_offset_date_time().with_offset(o)),
                          ("Instant.in_zone(fixed)", i.in_zone(DateTimeZone.for_offset(o)).to_offset_date_time()),
                          ("ZonedDateTime(instant, zone)", ZonedDateTime(instant=i, zone=DateTimeZone.for_offset(o)).to_offset_date_time())]
                for nm, v2 in routes:
                    ctx.ev(); ctx.count("default_calendar_routes")
                    if v2 != odt or local_of(v2.local_date_time) != L or gen.ymd(v2.date) != exp_ymd:
                        V(f"default-calendar-route:{nm.split('(')[0]}", f"{nm} gives local {local_of(v2.local_date_time)} ({gen.ymd(v2.date)}); with the ISO calendar named explicitly the same instant and offset give {L} ({exp_ymd})", case)
                u_ = i.in_utc()
                if local_of(u_.local_date_time) != n or u_.offset.seconds != 0:
                    V("default-calendar-route:in_utc", f"Instant({n}).in_utc() has local {local_of(u_.local_date_time)}", case)
            except Exception as ex:  # noqa: BLE001
                ctx.exc(ex); V(f"default-calendar-route-raised:{exc_key(ex)}", f"a calendar-less route raised {ex!r}", case, repr(ex))
        if od.date != odt.date or od.offset != o or od.calendar is not cal or ot.offset != o or ot.nanosecond_of_day != et or ot.time_of_day != odt.time_of_day:
            V("to_offset_date-time", "to_offset_date/to_offset_time lost a component", case)
        if od.at(odt.time_of_day) != odt or ot.on(odt.date) != odt:
            V("at-on", "OffsetDate.at / OffsetTime.on do not rebuild the value", case)
        # with_offset
        exact = []
        if et % 10**9 == 0:
            for target in (-DAY, 0, DAY, 2 * DAY, -DAY - 10**9, DAY - 10**9, -DAY + 10**9):
                exact.append(os_ + (target - et) // 10**9)   # new offset so that time-of-day + (new - old) hits a day boundary exactly
        for o2s in rng.sample(offs, 5) + [-os_] + exact:
            if not -64800 <= o2s <= 64800: continue
            o2 = Offset.from_seconds(o2s)
            L2 = n + o2s * 10**9; d2, t2 = divmod(L2, DAY)
            if not lo <= d2 <= hi: continue
            c2 = dict(case, off2=o2s)
            ctx.ev(); ctx.count("with_offset"); ctx.key(("with_offset", cid, max(-2, min(2, d2 - ed))))
            try:
                w = odt.with_offset(o2)
            except Exception as e:  # noqa: BLE001
                ctx.exc(e); V(f"odt.with_offset-raised:{exc_key(e)}", f"with_offset({o2s}) raised {e!r}", c2, repr(e)); continue
            in_step(w, "with_offset", c2)
            if ns_of(w.to_instant()) != n:
                V("with_offset-instant", f"with_offset({o2s}) changed the instant: {ns_of(w.to_instant())} != {n}", c2, ns_of(w.to_instant()), n)
            if (gen.day_of(w.date), w.nanosecond_of_day) != (d2, t2):
                V("with_offset-local", f"with_offset({o2s}): local = day {gen.day_of(w.date)} ns {w.nanosecond_of_day}, model day {d2} ns {t2}", c2, (gen.day_of(w.date), w.nanosecond_of_day), (d2, t2))
            if w.calendar is not cal or w.offset != o2:
                V("with_offset-calendar-offset", f"with_offset({o2s}) lost calendar/offset", c2)
            wt = ot.with_offset(o2)
            if wt.nanosecond_of_day != et or wt.offset != o2:
                V("OffsetTime.with_offset", "OffsetTime.with_offset must keep the time of day and set the offset", c2)
            wd = od.with_offset(o2)
            if wd.date != od.date or wd.offset != o2:
                V("OffsetDate.with_offset", "OffsetDate.with_offset must keep the date and set the offset", c2)
        # with_calendar
        for c2cal in rng.sample(cals, 4):
            clo, chi = gen.cal_range(c2cal.id)
            if not clo <= ed <= chi: continue
            ctx.ev(); ctx.count("with_calendar"); ctx.key(("with_calendar", cid, c2cal.id))
            wc = odt.with_calendar(c2cal)
            in_step(wc, "with_calendar", dict(case, cal2=c2cal.id))
            if ns_of(wc.to_instant()) != n or wc.calendar is not c2cal or wc.offset != o or wc.nanosecond_of_day != et or gen.day_of(wc.date) != ed:
                V("with_calendar", f"with_calendar({c2cal.id}) changed instant/offset/time: instant {ns_of(wc.to_instant())} off {wc.offset.seconds}", dict(case, cal2=c2cal.id))
            wdc = od.with_calendar(c2cal)
            if gen.day_of(wdc.date) != ed or wdc.offset != o or wdc.calendar is not c2cal:
                V("OffsetDate.with_calendar", f"OffsetDate.with_calendar({c2cal.id}) changed day or offset", dict(case, cal2=c2cal.id))
        # adjusters: changing only the date keeps the time (and offset), changing only the time keeps the date
        ctx.ev(); ctx.count("adjusters")
        try:
            a1 = odt.with_time_adjuster(TimeAdjusters.truncate_to_hour)
            if a1.date != odt.date or a1.offset != o or a1.nanosecond_of_day != et - et % (3600 * 10**9) or a1.calendar is not cal:
                V("with_time_adjuster", f"with_time_adjuster(truncate_to_hour) gave {a1!r}", case)
            a2 = odt.with_date_adjuster(DateAdjusters.start_of_month)
            if a2.nanosecond_of_day != et or a2.offset != o or gen.ymd(a2.date) != (exp_ymd[0], exp_ymd[1], 1) or a2.calendar is not cal:
                V("with_date_adjuster", f"with_date_adjuster(start_of_month) gave {a2!r}", case)
            in_step(a1, "with_time_adjuster", case); in_step(a2, "with_date_adjuster(start_of_month) after to_instant()", case)
            for adj_nm, adj in (("end_of_month", DateAdjusters.end_of_month), ("next(MONDAY)", DateAdjusters.next(IsoDayOfWeek.MONDAY)), ("add 40 days", lambda d_: d_.plus_days(40 if gen.day_of(d_) + 41 < hi else -40))):
                try:
                    ax = odt.with_date_adjuster(adj)
                except Exception as ex:  # noqa: BLE001  (range edge)
                    ctx.exc(ex); continue
                in_step(ax, f"with_date_adjuster({adj_nm})", case)
                if ax.nanosecond_of_day != et or ax.offset != o: V("with_date_adjuster", f"with_date_adjuster({adj_nm}) changed time or offset", case)
            a3 = od.with_date_adjuster(DateAdjusters.end_of_month)
            if a3.offset != o or a3.date.day != cal.get_days_in_month(exp_ymd[0], exp_ymd[1]):
                V("OffsetDate.with_date_adjuster", f"gave {a3!r}", case)
            a4 = ot.with_time_adjuster(TimeAdjusters.truncate_to_minute)
            if a4.offset != o or a4.nanosecond_of_day != et - et % (60 * 10**9):
                V("OffsetTime.with_time_adjuster", f"gave {a4!r}", case)
        except Exception as e:  # noqa: BLE001
            ctx.exc(e); V(f"adjuster-raised:{exc_key(e)}", f"adjuster raised {e!r}", case, repr(e))
        # +- duration
        for dn in (0, 1, -1, DAY, -DAY, DAY - t - 1, -(t + 1), rng.randint(-10**15, 10**15), rng.randint(-10**16, 10**16), rng.randint(-3 * DAY, 3 * DAY)):
            e_ns = n + dn; Le = e_ns + os_ * 10**9
            if not (IMIN <= e_ns <= IMAX and lo <= Le // DAY <= hi): continue
            c3 = dict(case, dur=dn)
            dur = Duration.from_nanoseconds(dn)
            ops = [("+", lambda: odt + dur, 1), ("-", lambda: odt - Duration.from_nanoseconds(-dn), 1), ("plus", lambda: odt.plus(dur), 1), ("minus", lambda: odt.minus(Duration.from_nanoseconds(-dn)), 1),
                   ("add", lambda: OffsetDateTime.add(odt, dur), 1), ("subtract", lambda: OffsetDateTime.subtract(odt, Duration.from_nanoseconds(-dn)), 1),
                   ("plus_nanoseconds", lambda: odt.plus_nanoseconds(dn), 1)]
            if dn % 100 == 0: ops.append(("plus_ticks", lambda: odt.plus_ticks(dn // 100), 1))
            if dn % 10**6 == 0: ops.append(("plus_milliseconds", lambda: odt.plus_milliseconds(dn // 10**6), 1))
            if dn % 10**9 == 0: ops += [("plus_seconds", lambda: odt.plus_seconds(dn // 10**9), 1)]
            if dn % (60 * 10**9) == 0: ops += [("plus_minutes", lambda: odt.plus_minutes(dn // (60 * 10**9)), 1)]
            if dn % (3600 * 10**9) == 0: ops += [("plus_hours", lambda: odt.plus_hours(dn // (3600 * 10**9)), 1)]
            for nm, fn, _ in ops:
                ctx.ev(); ctx.count("duration_arith"); ctx.key(("dur", cid, nm, max(-2, min(2, Le // DAY - ed))))
                try:
                    r = fn()
                except Exception as ex:  # noqa: BLE001
                    ctx.exc(ex); V(f"duration-{nm}-raised:{exc_key(ex)}", f"{odt!r} {nm} {dn} ns raised {ex!r}", c3, repr(ex)); continue
                if ns_of(r.to_instant()) != e_ns:
                    V(f"duration-{nm}-instant", f"{nm} {dn} ns moved the instant to {ns_of(r.to_instant())}, expected {e_ns}", c3, ns_of(r.to_instant()), e_ns)
                if r.offset != o:
                    V(f"duration-{nm}-offset", f"{nm} changed the offset to {r.offset.seconds}", c3)
                if r.calendar is not cal:
                    V("duration-arith-calendar-lost", f"{nm} {dn} ns returned a value in calendar {r.calendar.id} (was {cid})", c3, r.calendar.id, cid)
                elif (gen.day_of(r.date), r.nanosecond_of_day) != divmod(Le, DAY):
                    V(f"duration-{nm}-local", f"{nm}: local {(gen.day_of(r.date), r.nanosecond_of_day)} != instant+offset {divmod(Le, DAY)}", c3)
        # the sum's instant leaves the supported range although its local date-time would still be a valid date: must raise, never return
        if it % 4 == 0:
            for edge, sgn in ((IMAX, 1), (IMIN, -1)):
                oe = -sgn * rng.choice([3600, 18000, 64800, 43200, rng.randint(1, 64800)])      # offset pointing inwards, so the local value stays in range longest
                back = rng.choice([1, 3600 * 10**9, 10 * 3600 * 10**9, rng.randint(1, 17 * 3600 * 10**9)])
                nb = edge - sgn * back
                if not (lo <= (nb + oe * 10**9) // DAY <= hi): continue
                try:
                    base = ins(nb).with_offset(Offset.from_seconds(oe), cal)
                except Exception as ex:  # noqa: BLE001
                    ctx.exc(ex); continue
                # values built directly from a local date-time near the edge with an offset pointing OUTWARDS: the instant does not exist
                for out_ns in (1, 10**9, rng.randint(1, 64800 * 10**9)):
                    oo = sgn * -1 * ((out_ns + 10**9 - 1) // 10**9 + rng.choice([0, 60]))          # offset sign that pushes local - offset beyond the edge
                    if not -64800 <= oo <= 64800: continue
                    Ledge = edge + sgn * 0 - (0 if sgn > 0 else 0)
                    Lloc = edge - sgn * rng.randint(0, 10**9)                                     # local value just inside the range
                    if not (lo <= Lloc // DAY <= hi): continue
                    inst_would = Lloc - oo * 10**9
                    if IMIN <= inst_would <= IMAX: continue
                    try:
                        ldt_e = gen.date_of(Lloc // DAY, cal).at(LocalTime.from_nanoseconds_since_midnight(Lloc % DAY))
                        v_e = OffsetDateTime(ldt_e, Offset.from_seconds(oo))
                    except Exception as ex:  # noqa: BLE001
                        ctx.exc(ex); continue
                    for nm, fn in (("to_instant", lambda: v_e.to_instant()), ("difference", lambda: v_e - ins(0).with_offset(Offset.zero)), ("in_fixed_zone+to_instant", lambda: v_e.in_fixed_zone().to_instant())):
                        ctx.ev(); ctx.count("duration_arith"); ctx.key(("instant-outside-range", cid, sgn, nm))
                        try:
                            r_ = fn()
                        except (OverflowError, ValueError) as ex:
                            ctx.exc(ex); continue
                        except Exception as ex:  # noqa: BLE001
                            ctx.exc(ex); V(f"instant-outside-range-raised:{exc_key(ex)}", f"{nm} of a value whose instant lies outside the Instant range raised {ex!r}", {"kind": "odt-edge", "L": Lloc, "off": oo}, repr(ex)); continue
                        V(f"instant-outside-range-returned:{nm.split('+')[0]}", f"local {Lloc} at offset {oo} s denotes instant {inst_would}, outside [{IMIN}, {IMAX}], but {nm} returned {r_!r} instead of raising", {"kind": "odt-edge", "L": Lloc, "off": oo}, None, inst_would)
                for over in (1, 100, 10**9, rng.randint(1, abs(oe) * 10**9)):
                    dn = sgn * (back + over)                                                      # instant passes the edge by `over`
                    Le = nb + dn + oe * 10**9
                    if not (lo <= Le // DAY <= hi and over <= abs(oe) * 10**9): continue         # local result still a valid date of this calendar
                    c5 = {"kind": "odt-edge", "n": nb, "off": oe, "dur": dn}
                    for nm, fn in (("+", lambda: base + Duration.from_nanoseconds(dn)), ("-", lambda: base - Duration.from_nanoseconds(-dn)), ("plus_nanoseconds", lambda: base.plus_nanoseconds(dn)),
                                   ("plus", lambda: base.plus(Duration.from_nanoseconds(dn)))):
                        ctx.ev(); ctx.count("duration_arith"); ctx.key(("dur-edge", cid, sgn, nm))
                        try:
                            r = fn()
                        except (ValueError, OverflowError) as ex:
                            ctx.exc(ex); continue
                        except Exception as ex:  # noqa: BLE001
                            ctx.exc(ex); V(f"duration-{nm}-raised:{exc_key(ex)}", f"{nm} {dn} ns past the end of the instant range raised {ex!r} (ValueError/OverflowError expected)", c5, repr(ex)); continue
                        V("duration-out-of-range-returned", f"Instant({nb}) at offset {oe} s {nm} {dn} ns: the instant would be {nb + dn}, outside [{IMIN}, {IMAX}], but a value was returned instead of raising", c5, None, nb + dn)
        # difference regardless of offsets and calendars
        m = rng.randint(IMIN + 2 * DAY, IMAX - 2 * DAY); oc = rng.choice(cals); olo, ohi = gen.cal_range(oc.id)
        o3 = Offset.from_seconds(rng.choice(offs))
        if olo < (m + o3.seconds * 10**9) // DAY < ohi:
            other = ins(m).with_offset(o3, oc)
            ctx.ev(); ctx.count("difference"); ctx.key(("diff", cid, oc.id))
            for nm, fn in (("-", lambda: odt - other), ("minus", lambda: odt.minus(other)), ("subtract", lambda: OffsetDateTime.subtract(odt, other))):
                try:
                    got = fn().to_nanoseconds()
                    if got != n - m:
                        V(f"difference:{nm}", f"{odt!r} {nm} {other!r} = {got} ns; instants differ by {n - m}", dict(case, m=m), got, n - m)
                except Exception as ex:  # noqa: BLE001
                    ctx.exc(ex); V(f"difference-raised:{exc_key(ex)}", f"difference raised {ex!r}", dict(case, m=m), repr(ex))
        # differences when the two offsets are more than 24 h apart (the local days differ by two): sweep the time of day
        if it % 3 == 0:
            for (oa, ob) in ((64800, -64800), (50400, -39600), (-43200, 50400), (64800, -25200), (-64800, 30600), (rng.randint(30000, 64800), -rng.randint(30000, 64800))):
                try:
                    A_ = i.with_offset(Offset.from_seconds(oa), cal)
                except Exception as ex:  # noqa: BLE001  (edge of the calendar's range)
                    ctx.exc(ex); continue
                for dm in (0, 1, -1, 45 * 60 * 10**9, -45 * 60 * 10**9, DAY, -DAY, DAY + 1, rng.randint(-2 * DAY, 2 * DAY), rng.randrange(-48, 49) * 1800 * 10**9):
                    m2 = n + dm
                    if not (IMIN + 3 * DAY <= m2 <= IMAX - 3 * DAY): continue
                    try:
                        B_ = ins(m2).with_offset(Offset.from_seconds(ob), rng.choice(cals[:3]))
                    except Exception as ex:  # noqa: BLE001
                        ctx.exc(ex); continue
                    ctx.ev(); ctx.count("difference"); ctx.key(("diff-wide", cid, (dm > 0) - (dm < 0), abs(dm) >= DAY))
                    for nm, fn, want in (("A-B", lambda: A_ - B_, n - m2), ("B-A", lambda: B_ - A_, m2 - n)):
                        try:
                            dur = fn()
                            if dur.to_nanoseconds() != want or dur != Duration.from_nanoseconds(want):
                                V("difference-wide-offsets", f"{A_!r} / {B_!r} ({nm}, offsets {oa} s and {ob} s): difference {dur.to_nanoseconds()} ns (normal form equal: {dur == Duration.from_nanoseconds(want)}); the instants are {want} ns apart", dict(case, oa=oa, ob=ob, dm=dm), dur.to_nanoseconds(), want)
                        except Exception as ex:  # noqa: BLE001
                            ctx.exc(ex); V(f"difference-raised:{exc_key(ex)}", f"difference raised {ex!r}", dict(case, oa=oa, ob=ob, dm=dm), repr(ex))
        # zoned
        for z in rng.sample(zones, 4):
            c4 = dict(case, zone=z.id)
            ctx.ev(); ctx.count("zoned"); ctx.key(("zoned", cid, z.id))
            try:
                zdt = i.in_zone(z, cal)
                z2 = ZonedDateTime(instant=i, zone=z, calendar=cal)
            except Exception as ex:  # noqa: BLE001
                Lz = n + z.get_utc_offset(i).seconds * 10**9
                if lo <= Lz // DAY <= hi:
                    ctx.exc(ex); V(f"in_zone-raised:{exc_key(ex)}", f"Instant({n}).in_zone({z.id}) raised {ex!r}", c4, repr(ex))
                continue
            off = z.get_utc_offset(i)
            Lz = n + off.seconds * 10**9
            if zdt.offset != off or ns_of(zdt.to_instant()) != n or zdt.calendar is not cal or zdt.zone is not z or z2 != zdt:
                V("zoned-basic", f"in_zone({z.id}): offset {zdt.offset.seconds} (zone says {off.seconds}), instant {ns_of(zdt.to_instant())}", c4)
            if (gen.day_of(zdt.date), zdt.time_of_day.nanosecond_of_day) != divmod(Lz, DAY) or local_of(zdt.local_date_time) != Lz:
                V("zoned-local", f"in_zone({z.id}): local {(gen.day_of(zdt.date), zdt.time_of_day.nanosecond_of_day)} != instant+offset {divmod(Lz, DAY)}", c4)
            zo = zdt.to_offset_date_time()
            if ns_of(zo.to_instant()) != n or zo.offset != off or zo.calendar is not cal:
                V("zoned-to_offset_date_time", "to_offset_date_time lost a component", c4)
            oz = odt.in_zone(z)
            if ns_of(oz.to_instant()) != n or oz.offset != off or oz.zone is not z:
                V("odt.in_zone", f"OffsetDateTime.in_zone({z.id}) changed the instant or has the wrong offset/zone", c4)
            if oz.calendar is not cal:
                ctx.count("note:odt.in_zone-returns-iso-calendar")  # documented as 'finds the ZonedDateTime for that instant': not judged
            fz = odt.in_fixed_zone()
            if ns_of(fz.to_instant()) != n or fz.offset != o or fz.calendar is not cal:
                V("odt.in_fixed_zone", "in_fixed_zone changed instant/offset/calendar", c4)
            in_step(zdt, "Instant.in_zone", c4)
            # the (local date-time, zone, offset) constructor: accepted exactly when the offset is the zone's offset at local - offset
            try:
                zi0 = z.get_zone_interval(i)
                cands = [(n, zdt.offset.seconds)]
                for edge in ([ns_of(zi0.end)] if zi0.has_end else []) + ([ns_of(zi0.start)] if zi0.has_start else []):
                    wb_ = z.get_utc_offset(ins(edge - 1)).seconds; wa_ = z.get_utc_offset(ins(edge)).seconds
                    for frac in (0, 1, abs(wa_ - wb_) * 10**9 // 2, abs(wa_ - wb_) * 10**9 - 1):
                        for base_off in (wb_, wa_):
                            Lx = edge + min(wb_, wa_) * 10**9 + frac          # a local value inside the skipped / repeated stretch
                            cands.append((Lx - base_off * 10**9, base_off))
                for inst_x, off_x in cands:
                    Lx = inst_x + off_x * 10**9
                    if not (IMIN + 2 * DAY <= inst_x <= IMAX - 2 * DAY and lo + 1 < Lx // DAY < hi - 1): continue
                    ldx = gen.date_of(Lx // DAY, cal).at(LocalTime.from_nanoseconds_since_midnight(Lx % DAY))
                    true_off = z.get_utc_offset(ins(inst_x)).seconds
                    ctx.ev(); ctx.count("zoned"); ctx.key(("zoned-ctor", cid, true_off == off_x))
                    try:
                        zx = ZonedDateTime(local_date_time=ldx, zone=z, offset=Offset.from_seconds(off_x))
                    except ValueError as ex:
                        ctx.exc(ex)
                        if true_off == off_x:
                            V("zoned-ctor-rejected", f"ZonedDateTime(local {Lx}, {z.id}, offset {off_x} s) raised {ex!r} although {off_x} s is the zone's offset at local - offset", dict(c4, L=Lx, off=off_x))
                        continue
                    if true_off != off_x:
                        V("zoned-ctor-accepted-wrong-offset", f"ZonedDateTime(local {Lx}, {z.id}, offset {off_x} s) was accepted; at the instant local - offset ({inst_x}) the zone's offset is {true_off} s", dict(c4, L=Lx, off=off_x), off_x, true_off)
                    elif ns_of(zx.to_instant()) != inst_x or zx.offset.seconds != off_x or zx.calendar is not cal:
                        V("zoned-ctor-value", f"ZonedDateTime(local {Lx}, {z.id}, offset {off_x} s) has instant {ns_of(zx.to_instant())}, expected {inst_x}", dict(c4, L=Lx, off=off_x))
                    else:
                        in_step(zx, "ZonedDateTime(local, zone, offset)", c4)
            except Exception as ex:  # noqa: BLE001
                ctx.exc(ex); V(f"zoned-ctor-raised:{exc_key(ex)}", f"ZonedDateTime(local, zone, offset) route raised {ex!r}", c4, repr(ex))
            dns = [rng.choice([0, 1, -1, rng.randint(-10**16, 10**16), rng.randint(-10**12, 10**12)])]
            try:   # sums that land exactly on, just before and just after the neighbouring transitions of the zone
                zi_ = z.get_zone_interval(i)
                if zi_.has_end: dns += [ns_of(zi_.end) - n, ns_of(zi_.end) - n - 1, ns_of(zi_.end) - n + 1]
                if zi_.has_start: dns += [ns_of(zi_.start) - n, ns_of(zi_.start) - n - 1]
            except Exception as ex:  # noqa: BLE001
                ctx.exc(ex)
            for dn in dns:
                e_ns = n + dn
                if not (IMIN + 2 * DAY <= e_ns <= IMAX - 2 * DAY and lo < e_ns // DAY - 1 and e_ns // DAY + 1 < hi and abs(dn) < 2**62): continue
                exp_off = z.get_utc_offset(ins(e_ns))
                zops = [("+", lambda: zdt + Duration.from_nanoseconds(dn))]      # this port's ZonedDateTime has only `+`; the others are used when a tree has them
                if hasattr(ZonedDateTime, "__sub__"): zops.append(("-", lambda: zdt - Duration.from_nanoseconds(-dn)))
                if hasattr(ZonedDateTime, "plus"): zops.append(("plus", lambda: zdt.plus(Duration.from_nanoseconds(dn))))
                if hasattr(ZonedDateTime, "plus_nanoseconds"): zops.append(("plus_nanoseconds", lambda: zdt.plus_nanoseconds(dn)))
                for nm, fn in zops:
                    ctx.ev(); ctx.count("zoned"); ctx.key(("zoned-add", cid, nm, dn in dns[1:], (dn > 0) - (dn < 0)))
                    try:
                        r = fn()
                    except Exception as ex:  # noqa: BLE001
                        ctx.exc(ex); V(f"zoned-add-raised:{exc_key(ex)}", f"ZonedDateTime {nm} {dn} ns raised {ex!r}", c4, repr(ex)); continue
                    if ns_of(r.to_instant()) != e_ns or r.calendar is not cal or r.zone is not z or r.offset != exp_off or local_of(r.local_date_time) != e_ns + exp_off.seconds * 10**9:
                        V("zoned-add-duration", f"ZonedDateTime({z.id}) {nm} {dn} ns: instant {ns_of(r.to_instant())} (exp {e_ns}), calendar {r.calendar.id}, offset {r.offset.seconds} (zone says {exp_off.seconds})", dict(c4, dur=dn))
        # ZonedClock over an auto-advancing clock: whatever it returns must be self-consistent (offset = zone offset at its own instant)
        if it % 5 == 0:
            from pyoda_time import ZonedClock
            from pyoda_time.testing import FakeClock
            z = rng.choice(zones)
            step_ = rng.choice([1, 7, 1800 * 10**9, 3600 * 10**9])
            start_ = n
            try:   # start a few ticks before the zone's next transition so that reads straddle it
                zi_ = z.get_zone_interval(ins(n))
                if zi_.has_end and ns_of(zi_.end) - 4 * step_ > IMIN:
                    start_ = ns_of(zi_.end) - rng.randint(1, 4) * step_ + rng.choice([0, 0, 1]) * (step_ > 1)
            except Exception as ex:  # noqa: BLE001
                ctx.exc(ex)
            fc = FakeClock(ins(start_), Duration.from_nanoseconds(step_))
            zc = ZonedClock(fc, z, cal)
            ctx.key(("zoned-clock", z.id, step_))
            for _ in range(10):
                try:
                    o_ = zc.get_current_offset_date_time(); zd = zc.get_current_zoned_date_time()
                except Exception as ex:  # noqa: BLE001
                    ctx.exc(ex); break
                ctx.ev(); ctx.count("zoned")
                for nm, v_ in (("offset_date_time", o_), ("zoned_date_time", zd)):
                    inst_ = v_.to_instant()
                    if v_.offset != z.get_utc_offset(inst_) or local_of(v_.local_date_time) != ns_of(inst_) + v_.offset.seconds * 10**9 or v_.calendar is not cal:
                        V(f"zoned-clock-inconsistent:{nm}", f"ZonedClock({z.id}).get_current_{nm}() = {v_!r}: its offset {v_.offset.seconds} s is not the zone's offset at its own instant ({z.get_utc_offset(inst_).seconds} s) or local != instant + offset", dict(case, zone=z.id))
        if it < 2:
            ctx.sample({"kind": "odt", "cal": cid, "n": n, "off": os_})


def replay(ctx, case):
    ctx.distinct(2)
    # the runner restores the original shard (name, n), so the same seeded cases are regenerated
    run(ctx, ctx.shard if "cal" in ctx.shard else {"cal": case.get("cal", "ISO"), "n": 30})
