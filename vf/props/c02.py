"""C02 — dates denote the day their published definition prescribes (DESIGN §3 C02).

Oracle: vf/models/calendars_ref.py (plain-integer Reingold-Dershowitz arithmetic, no pyoda_time import) and, for
ISO/Gregorian in years 1..9999, the standard library's proleptic Gregorian ordinals.
"""
from __future__ import annotations

import datetime as dt

LEVEL = "exploration"
RULE = ("17 arithmetic calendar ids; quick: every year start, every month start and end of every year, seeded 1-in-53 day sample, ISO vs "
        "datetime.date on a boundary+seeded ordinal sample; thorough: EVERY day of each of the 17 calendars against the reference walk and "
        "every one of the 3,652,059 stdlib ordinals; distinct = (calendar, day) pairs at a year/month boundary (counted) plus all walked days")
ASSUMPTIONS = ["published algorithms as implemented independently in vf/models/calendars_ref.py (epochs: Julian 284-08-29 Coptic, 622-07-16/15 Islamic, "
               "-3760-10-07 Hebrew, 622-03-19 Persian arithmetic, Gregorian 622-03-21 Persian simple)", "datetime.date proleptic Gregorian ordinals",
               "Persian arithmetic only from year 475; Badi, Um Al Qura, Persian astronomical are table driven and out of scope"]
MIN_NT = {"quick": 5000, "thorough": 100000}
REQUIRED = {"any": ["year_starts", "month_bounds", "day_samples", "iso_vs_stdlib", "leap_flags"]}
EXHAUSTIVE = {"thorough": True}
MAXORD = 3652059
UNIX = 719163


def arithmetic_ids():
    from pyoda_time import CalendarSystem
    from vf.models import calendars_ref as R
    return [cid for cid in CalendarSystem.ids if R.reference_for(cid) is not None]


def shards(tier, seed):
    from vf import gen
    from vf.models import calendars_ref as R
    out = []
    for cid in arithmetic_ids():
        cal = gen.cal_by_id(cid)
        miny = R.MIN_YEAR_OVERRIDE.get(cid, cal.min_year)
        ny = cal.max_year - miny + 1
        if tier == "quick":
            k = max(1, ny // 5000); step = (ny + k - 1) // k
            for i in range(k):
                out.append({"name": f"years:{cid}:{i}", "mode": "years", "cal": cid, "ylo": miny + i * step, "yhi": min(cal.max_year, miny + (i + 1) * step - 1)})
        else:
            k = max(1, ny // 600); step = (ny + k - 1) // k
            for i in range(k):
                out.append({"name": f"walk:{cid}:{i}", "mode": "walk", "cal": cid, "ylo": miny + i * step, "yhi": min(cal.max_year, miny + (i + 1) * step - 1)})
    for cid in arithmetic_ids():
        out.append({"name": f"collide:{cid}", "mode": "collide", "cal": cid, "residues": 24 if tier == "quick" else 256})
    if tier == "quick":
        out.append({"name": "stdlib:sample", "mode": "stdlib_sample"})
    else:
        n = 24; step = (MAXORD + n - 1) // n
        out += [{"name": f"stdlib:{i}", "mode": "stdlib", "lo": 1 + i * step, "hi": min(MAXORD, (i + 1) * step)} for i in range(n)]
    return out


def V(ctx, cid, mon, what, case, obs=None, exp=None):
    ctx.V(f"C02:{mon}:{cid}", f"{cid}: {what}", dict(case, cal=cid), obs, exp)


def check_year(ctx, cid, cal, ref, y, every_day, rng):
    """Year-level and month-level comparison for year y; optionally every day (walk) or a 1-in-53 sample."""
    from pyoda_time import LocalDate
    from vf import gen
    lo, hi = gen.cal_range(cid)
    ctx.counters["year_starts"] += 1; ctx.counters["leap_flags"] += 1; ctx.ev(3)
    case = {"kind": "year", "y": y}
    if cal.is_leap_year(y) != ref.is_leap(y):
        V(ctx, cid, "leap-year", f"is_leap_year({y}) = {cal.is_leap_year(y)}, published rule says {ref.is_leap(y)}", case, cal.is_leap_year(y), ref.is_leap(y))
    if cal.get_months_in_year(y) != ref.months_in_year(y):
        V(ctx, cid, "months-in-year", f"get_months_in_year({y}) = {cal.get_months_in_year(y)}, reference {ref.months_in_year(y)}", case)
        return
    diy = ref.days_in_year(y)
    if cal.get_days_in_year(y) != diy:
        V(ctx, cid, "days-in-year", f"get_days_in_year({y}) = {cal.get_days_in_year(y)}, reference {diy}", case, cal.get_days_in_year(y), diy)
    n = ref.year_start(y)
    for m in ref.month_order(y):
        dim = ref.days_in_month(y, m)
        ctx.counters["month_bounds"] += 1; ctx.ev(); ctx.nt_extra += 2
        got = cal.get_days_in_month(y, m)
        if got != dim:
            V(ctx, cid, "days-in-month", f"get_days_in_month({y},{m}) = {got}, reference {dim}", {"kind": "month", "y": y, "m": m}, got, dim)
        for d, nn in ((1, n), (dim, n + dim - 1)):
            if not lo <= nn <= hi:
                continue
            try:
                x = LocalDate(y, m, d, cal)
                dn = gen.day_of(x)
            except Exception as e:  # noqa: BLE001
                ctx.exc(e); V(ctx, cid, "date-rejected", f"LocalDate({y},{m},{d}) raised {e!r}; the reference places it on day {nn}", {"kind": "ymd", "ymd": [y, m, d]}, repr(e)); continue
            if dn != nn:
                V(ctx, cid, "day-number", f"{y}-{m}-{d} denotes day {dn} ({x.with_calendar(gen.ISO)!r} ISO); the published algorithm gives day {nn}", {"kind": "ymd", "ymd": [y, m, d]}, dn, nn)
            back = gen.ymd(gen.date_of(nn, cal))
            if back != (y, m, d):
                V(ctx, cid, "day-to-date", f"day {nn} is reported as {back}; the published algorithm gives {(y, m, d)}", {"kind": "day", "d": nn}, back, (y, m, d))
        if every_day:
            for d in range(2, dim):
                nn = n + d - 1
                if not lo <= nn <= hi: continue
                x = gen.date_of(nn, cal)
                if (x.year, x.month, x.day) != (y, m, d):
                    V(ctx, cid, "day-to-date", f"day {nn} is reported as {gen.ymd(x)}; the published algorithm gives {(y, m, d)}", {"kind": "day", "d": nn}, gen.ymd(x), (y, m, d))
                if x.day_of_week.value != (nn + 3) % 7 + 1:
                    V(ctx, cid, "day-of-week", f"day {nn}: day_of_week {x.day_of_week.value}", {"kind": "day", "d": nn})
            ctx.counters["day_samples"] += max(0, dim - 2); ctx.evaluations += max(0, dim - 2); ctx.nt_extra += max(0, dim - 2)
        n += dim
    if not every_day:
        # 1-in-53 day sample of this year, both directions
        k = rng.randrange(53)
        for off in range(k, diy, 53):
            nn = ref.year_start(y) + off
            if not lo <= nn <= hi: continue
            ctx.counters["day_samples"] += 1; ctx.ev()
            exp = ref.from_day(nn)
            x = gen.date_of(nn, cal)
            if gen.ymd(x) != exp:
                V(ctx, cid, "day-to-date", f"day {nn} is reported as {gen.ymd(x)}; the published algorithm gives {exp}", {"kind": "day", "d": nn}, gen.ymd(x), exp)
            try:
                z = LocalDate(exp[0], exp[1], exp[2], cal)
                if gen.day_of(z) != nn:
                    V(ctx, cid, "day-number", f"{exp} denotes day {gen.day_of(z)}; the published algorithm gives {nn}", {"kind": "ymd", "ymd": list(exp)}, gen.day_of(z), nn)
            except Exception as e:  # noqa: BLE001
                ctx.exc(e); V(ctx, cid, "date-rejected", f"LocalDate{exp} raised {e!r}", {"kind": "ymd", "ymd": list(exp)}, repr(e))
            if x.day_of_week.value != (nn + 3) % 7 + 1:
                V(ctx, cid, "day-of-week", f"day {nn}: day_of_week {x.day_of_week.value}", {"kind": "day", "d": nn})


def check_stdlib(ctx, o, deep):
    from pyoda_time import CalendarSystem, LocalDate
    from vf import gen
    d = dt.date.fromordinal(o)
    x = gen.date_of(o - UNIX, gen.ISO)
    if (x.year, x.month, x.day) != (d.year, d.month, d.day) or x.day_of_week.value != d.isoweekday():
        ctx.V("C02:iso-vs-stdlib:day-to-date", f"ISO day {o - UNIX}: {gen.ymd(x)} weekday {x.day_of_week.value}; datetime.date.fromordinal({o}) = {d} weekday {d.isoweekday()}", {"kind": "ord", "o": o}, gen.ymd(x), str(d))
    if deep:
        z = LocalDate(d.year, d.month, d.day)
        if gen.day_of(z) != o - UNIX:
            ctx.V("C02:iso-vs-stdlib:day-number", f"LocalDate({d.year},{d.month},{d.day}) is day {gen.day_of(z)}; toordinal gives {o - UNIX}", {"kind": "ord", "o": o}, gen.day_of(z), o - UNIX)
        g = LocalDate(d.year, d.month, d.day, CalendarSystem.gregorian)
        if gen.day_of(g) != o - UNIX or LocalDate.from_date(d) != z or z.day_of_year != d.timetuple().tm_yday:
            ctx.V("C02:iso-vs-stdlib:gregorian", f"Gregorian/from_date/day_of_year disagree with the stdlib for {d}", {"kind": "ord", "o": o})


def run(ctx, shard):
    from vf import gen
    from vf.models import calendars_ref as R
    for k in REQUIRED["any"]:
        ctx.counters.setdefault(k, 0)
    mode = shard["mode"]
    if mode in ("years", "walk"):
        cid = shard["cal"]; cal = gen.cal_by_id(cid); ref = R.reference_for(cid)
        y_epoch = ref.from_day(0)[0]
        for y in range(shard["ylo"], shard["yhi"] + 1):
            check_year(ctx, cid, cal, ref, y, mode == "walk" or abs(y - y_epoch) <= 1, ctx.rng)
        ctx.sample({"kind": "year", "cal": cid, "y": shard["ylo"], "reference_year_start": ref.year_start(shard["ylo"])})
    elif mode == "collide":
        # history-hostile order: years sharing a slot of the 1024-entry year caches, later year first
        cid = shard["cal"]; cal = gen.cal_by_id(cid); ref = R.reference_for(cid)
        miny = R.MIN_YEAR_OVERRIDE.get(cid, cal.min_year)
        res = sorted({0, 1, 1022, 1023} | {ctx.rng.randrange(1024) for _ in range(shard["residues"])})
        for r in res:
            ys = [y for y in range(miny, cal.max_year + 1) if y % 1024 == r]
            for y in reversed(ys):
                check_year(ctx, cid, cal, ref, y, False, ctx.rng)
            ctx.key(("collide", cid, r))
        ctx.sample({"kind": "collide", "cal": cid, "residues": res[:6]})
    elif mode == "stdlib":
        for o in range(shard["lo"], shard["hi"] + 1):
            check_stdlib(ctx, o, o % 7 == 0)
        n = shard["hi"] - shard["lo"] + 1
        ctx.counters["iso_vs_stdlib"] += n; ctx.evaluations += n; ctx.nt_extra += n
        ctx.sample({"kind": "ord", "o": shard["lo"]})
    else:
        rng = ctx.rng
        ords = set(range(1, 800)) | set(range(MAXORD - 800, MAXORD + 1)) | {rng.randint(1, MAXORD) for _ in range(120000)} | set(range(UNIX - 400, UNIX + 401))
        # 1900-2100 optimised window edges and century leap rules
        for y in (1899, 1900, 1901, 2000, 2099, 2100, 2101, 400, 100, 1600, 1700):
            for md in ((1, 1), (2, 28), (3, 1), (12, 31)):
                o = dt.date(y, *md).toordinal(); ords |= {o - 1, o, o + 1}
        for o in sorted(ords):
            check_stdlib(ctx, o, True)
            d = dt.date.fromordinal(o); ctx.key(("ord", d.year // 100, d.month, d.day in (1, 28, 29, 30, 31)))
        ctx.counters["iso_vs_stdlib"] += len(ords); ctx.evaluations += len(ords)
        ctx.sample({"kind": "ord", "o": 730120})


def replay(ctx, case):
    from vf import gen
    from vf.models import calendars_ref as R
    ctx.distinct(2)
    for k in REQUIRED["any"]:
        ctx.counters.setdefault(k, 0)
    if case["kind"] == "ord":
        check_stdlib(ctx, case["o"], True); return
    cid = case["cal"]; cal = gen.cal_by_id(cid); ref = R.reference_for(cid)
    if case["kind"] == "day":
        y = ref.from_day(case["d"])[0]
    elif case["kind"] in ("ymd",):
        y = case["ymd"][0]
    else:
        y = case["y"]
    check_year(ctx, cid, cal, ref, y, True, ctx.rng)
