"""C05 — local date-times map to exactly the instants whose local rendering is that value (DESIGN §3 C05, Appendix A.3).

Oracle: the zone's interval log recorded by the C04 walk (integers): hits = {L - wall(I) : start(I) <= L - wall(I) < end(I)}.
"""
from __future__ import annotations

LEVEL = "exploration"
RULE = ("for every logged transition t of every provider id (quick: all transitions up to 2100 + seeded far windows; large jumps always with all displacements): "
        "local values t+wall_before and t+wall_after displaced by {-1 day,-1 h,-1 s,-1 ns,0,+1 ns,+1 s,+1 h,+1 day, jump length -1 ns / +0}; seeded local "
        "values; values near the ends of time; ISO plus seeded other calendars; distinct key = (zone, transition, displacement class)")
ASSUMPTIONS = ["interval log of the zone as walked through get_zone_interval (judged by C04/C06)", "integer model of Appendix A.3"]
MIN_NT = {"quick": 20000, "thorough": 200000}
REQUIRED = {"any": ["mappings", "gaps", "overlaps", "roundtrips", "resolvers", "start_of_day", "zoned_ctor"]}

NS = 10**9
DAY = 86400 * NS
Y2100 = 4102444800 * NS
Y2037 = 2114380800 * NS
BIG = 10**40


def shards(tier, seed):
    from pyoda_time import DateTimeZoneProviders
    ids = list(DateTimeZoneProviders.tzdb.ids)
    k = 16 if tier == "quick" else 64
    return [{"name": f"zones:{i}", "ids": ids[i::k]} for i in range(k)] + [{"name": f"synthetic:{i}", "synthetic": 40 if tier == "quick" else 600} for i in range(2 if tier == "quick" else 6)]


def oracle(log, L):
    hits = []
    for r in log:
        s = -BIG if r[0] is None else r[0]; e = BIG if r[1] is None else r[1]
        i = L - r[2] * NS
        if s <= i < e:
            hits.append((i, r))
    hits.sort(key=lambda h: h[0])
    return hits


def gap_neighbours(log, L):
    A = None; B = None
    for r in log:
        if r[1] is not None and r[1] + r[2] * NS <= L:
            A = r
        if B is None and r[0] is not None and L < r[0] + r[2] * NS and (r[1] is None or True):
            if A is None or r[0] >= A[1]:
                B = r
    # B: first interval (in time order) that starts after A and whose local start is beyond L
    if A is not None:
        for r in log:
            if r[0] is not None and r[0] >= A[1] and L < r[0] + r[2] * NS:
                B = r; break
    return A, B


def within_one_transition(log, L):
    """True when every interval that matters for local value L is the interval containing the instant numerically equal to L, or a direct
    neighbour of it: all matches lie there and, for a skipped value, the gap touches it.  (The mapping algorithm, as upstream, looks no further;
    zones whose transitions are closer together than their offsets leave this regime.)"""
    g = None
    for i, r in enumerate(log):
        s_ = -BIG if r[0] is None else r[0]; e_ = BIG if r[1] is None else r[1]
        if s_ <= L < e_: g = i
    if g is None: return False
    m = [i for i, r in enumerate(log) if (-BIG if r[0] is None else r[0]) <= L - r[2] * NS < (BIG if r[1] is None else r[1])]
    if len(m) > 2 or any(abs(i - g) > 1 for i in m) or (len(m) == 2 and m[1] != m[0] + 1): return False
    if m: return True
    A, B = gap_neighbours(log, L)
    if A is None or B is None: return False
    ia, ib = log.index(A), log.index(B)
    # ... and the interval after the gap is longer than the gap (the forward-shifted value still lies inside it)
    return ib == ia + 1 and g in (ia, ib) and (B[1] is None or L - A[2] * NS < B[1])


class LocalWindow:
    """Slice of the log sufficient for local values near one instant (intervals within +-3 days)."""

    def __init__(self, log):
        self.log = log
        self.starts = [(-BIG if r[0] is None else r[0]) for r in log]

    def near(self, L):
        import bisect
        lo = bisect.bisect_left(self.starts, L - 3 * DAY) - 2
        hi = bisect.bisect_right(self.starts, L + 3 * DAY) + 1
        return self.log[max(0, lo):hi]


def check_local(ctx, zone, zid, W, L, cal, tag, kp=""):
    from pyoda_time import AmbiguousTimeError, Instant, LocalTime, SkippedTimeError, ZonedDateTime
    from pyoda_time.time_zones import Resolvers
    from vf import gen, zonewalk
    from vf.ctx import exc_key
    d, tt = divmod(L, DAY)
    lo, hi = gen.cal_range(cal.id)
    if not lo <= d <= hi:
        return
    ldt = gen.date_of(d, cal).at(LocalTime.from_nanoseconds_since_midnight(tt))
    sub = W.near(L)
    exp = oracle(sub, L)
    case = {"kind": "local", "zone": zid, "L": L, "cal": cal.id}
    ctx.ev(); ctx.counters["mappings"] += 1
    ctx.counters["gaps" if not exp else ("overlaps" if len(exp) == 2 else "single")] += 1

    def V(k, what, obs=None, e=None):
        ctx.V(f"C05:{k}" if not kp else "C05:beyond-adjacent-interval", f"{zid} local {L} ({ldt!r}, {cal.id}): [{k}] {what}", case, obs, e)
    representable = all(gen.INST_MIN_NS <= h[0] <= gen.INST_MAX_NS for h in exp)
    near_edge = not (gen.INST_MIN_NS + 2 * DAY < L < gen.INST_MAX_NS - 2 * DAY)
    try:
        m = zone.map_local(ldt)
    except Exception as ex:  # noqa: BLE001
        ctx.exc(ex)
        if (exp and representable) or not near_edge:       # every matching instant is representable: nothing to refuse
            V(f"map_local-raised:{exc_key(ex)}", f"map_local raised {ex!r}", repr(ex))
        return
    if not representable or (near_edge and not exp):
        ctx.count("note:matching-instant-outside-instant-range")   # the value denotes an instant outside the supported range: nothing further is promised
        return
    if m.count != len(exp):
        V("count", f"map_local count = {m.count}; the interval log gives {len(exp)} instants {[h[0] for h in exp]}", m.count, len(exp)); return
    if m.count >= 1:
        f = gen.inst_ns(m.first().to_instant()); l = gen.inst_ns(m.last().to_instant())
        if f != exp[0][0] or l != exp[-1][0]:
            V("first-last", f"first/last = {f}/{l}; expected {exp[0][0]}/{exp[-1][0]} (earlier first)", (f, l), (exp[0][0], exp[-1][0]))
        if zonewalk.rec_of(m.early_interval) != exp[0][1] or zonewalk.rec_of(m.late_interval) != exp[-1][1]:
            V("early-late-interval", f"early/late intervals {zonewalk.rec_of(m.early_interval)} / {zonewalk.rec_of(m.late_interval)}; expected {exp[0][1]} / {exp[-1][1]}")
        if m.first().local_date_time != ldt or m.last().local_date_time != ldt or m.first().calendar is not cal:
            V("result-local-differs", "the mapped results do not render as the requested local date-time in its calendar")
    else:
        A, B = gap_neighbours(sub, L)
        if A is None or B is None:
            return
        ea = zonewalk.rec_of(m.early_interval); lb = zonewalk.rec_of(m.late_interval)
        if ea != A or lb != B:
            V("gap-intervals", f"skipped time: early/late intervals are {ea} / {lb}; the two intervals adjacent to the gap are {A} / {B}", (ea, lb), (A, B))
        if A[1] != B[0]:
            ctx.count("note:gap-neighbours-not-adjacent")
    # single()
    ctx.counters["resolvers"] += 1
    try:
        s = m.single()
        if m.count != 1 or gen.inst_ns(s.to_instant()) != exp[0][0]:
            V("single", f"single() returned although count = {m.count}")
    except SkippedTimeError:
        if m.count != 0: V("single-raised-skipped", f"single() raised SkippedTimeError with count {m.count}")
    except AmbiguousTimeError:
        if m.count != 2: V("single-raised-ambiguous", f"single() raised AmbiguousTimeError with count {m.count}")
    except Exception as ex:  # noqa: BLE001
        ctx.exc(ex); V(f"single-raised-other:{type(ex).__name__}", f"single() raised {ex!r} (count {m.count}); only SkippedTimeError / AmbiguousTimeError are documented", repr(ex))
    # strict
    try:
        r = zone.at_strictly(ldt)
        if len(exp) != 1 or gen.inst_ns(r.to_instant()) != exp[0][0]:
            V("at_strictly-returned", f"at_strictly returned {gen.inst_ns(r.to_instant())} although {len(exp)} instants match")
    except SkippedTimeError:
        if len(exp) != 0: V("at_strictly-skipped", f"at_strictly raised SkippedTimeError although {len(exp)} instants match")
    except AmbiguousTimeError:
        if len(exp) != 2: V("at_strictly-ambiguous", f"at_strictly raised AmbiguousTimeError although {len(exp)} instants match")
    except Exception as ex:  # noqa: BLE001
        ctx.exc(ex); V(f"at_strictly-raised-other:{type(ex).__name__}", f"at_strictly raised {ex!r} ({len(exp)} instants match); the strict resolver raises SkippedTimeError / AmbiguousTimeError", repr(ex))
    # lenient
    try:
        r = zone.at_leniently(ldt); rn = gen.inst_ns(r.to_instant())
        r2 = zone.resolve_local(ldt, Resolvers.lenient_resolver)
        if gen.inst_ns(r2.to_instant()) != rn:
            V("resolve_local-lenient", "resolve_local(lenient_resolver) differs from at_leniently")
        if exp:
            if rn != exp[0][0]:
                V("at_leniently-ambiguous", f"at_leniently returned {rn}; the earlier matching instant is {exp[0][0]}", rn, exp[0][0])
        else:
            A, B = gap_neighbours(sub, L)
            if A is not None and B is not None and A[1] == B[0]:
                want = L - A[2] * NS   # shifted forward by the gap length, i.e. interpreted with the offset before the gap
                if rn != want or zonewalk.rec_of(zone.get_zone_interval(r.to_instant()))[2] != r.offset.seconds:
                    V("at_leniently-gap", f"at_leniently returned instant {rn}; shifting the skipped time forward by the gap length ({B[2] - A[2]} s) gives {want}", rn, want)
                elif gen.ldt_ns(r.local_date_time) != L + (B[2] - A[2]) * NS:
                    V("at_leniently-gap-local", f"lenient result renders as {gen.ldt_ns(r.local_date_time)}; expected L + gap = {L + (B[2] - A[2]) * NS}")
    except Exception as ex:  # noqa: BLE001
        ctx.exc(ex); V(f"at_leniently-raised:{exc_key(ex)}", f"at_leniently raised {ex!r}", repr(ex))
    # the six combinations of stock ambiguity/skipped resolvers do what they promise (full mode)
    if tag == "full" and (len(exp) != 1 or ctx.rng.random() < 0.2) and ctx.rng.random() < 0.5:
        A_, B_ = (gap_neighbours(sub, L) if not exp else (None, None))
        amb = [("return_earlier", Resolvers.return_earlier, lambda: exp[0][0]), ("return_later", Resolvers.return_later, lambda: exp[-1][0]),
               ("throw_when_ambiguous", Resolvers.throw_when_ambiguous, AmbiguousTimeError)]
        skp = [("return_end_of_interval_before", Resolvers.return_end_of_interval_before, lambda: A_[1] - 1),
               ("return_start_of_interval_after", Resolvers.return_start_of_interval_after, lambda: B_[0]),
               ("return_forward_shifted", Resolvers.return_forward_shifted, lambda: L - A_[2] * NS), ("throw_when_skipped", Resolvers.throw_when_skipped, SkippedTimeError)]
        for an, af, aexp in amb:
            for sn, sf, sexp in skp:
                if len(exp) == 1 and (an, sn) != ("return_earlier", "throw_when_skipped"):
                    continue
                if not exp and (A_ is None or B_ is None or A_[1] != B_[0]):
                    continue
                ctx.counters["resolvers"] += 1
                want = (lambda v_=exp[0][0]: v_) if len(exp) == 1 else (aexp if len(exp) == 2 else sexp)
                try:
                    rr = zone.resolve_local(ldt, Resolvers.create_mapping_resolver(af, sf))
                    got = gen.inst_ns(rr.to_instant())
                    if isinstance(want, type):
                        V(f"resolver-returned:{an}+{sn}", f"resolver ({an}, {sn}) returned {got}; it promises to raise {want.__name__} here ({len(exp)} matching instants)")
                    elif got != want():
                        V(f"resolver:{an if len(exp) == 2 else sn}", f"resolver ({an}, {sn}) returned instant {got}; its documented result is {want()}", got, want())
                    elif rr.zone is not zone or rr.calendar is not cal:
                        V("resolver-zone-calendar", f"resolver ({an}, {sn}) result lost the zone or the calendar")
                except (AmbiguousTimeError, SkippedTimeError) as ex:
                    if not (isinstance(want, type) and isinstance(ex, want)):
                        V(f"resolver-raised:{an}+{sn}", f"resolver ({an}, {sn}) raised {type(ex).__name__} with {len(exp)} matching instants")
                except Exception as ex:  # noqa: BLE001
                    ctx.exc(ex); V(f"resolver-unexpected:{exc_key(ex)}", f"resolver ({an}, {sn}) raised {ex!r}", repr(ex))
    # round trip instant -> local -> map_local
    for inst_ns, rec in exp:
        ctx.counters["roundtrips"] += 1
        z = gen.ns_inst(inst_ns).in_zone(zone, cal)
        if z.local_date_time != ldt:
            V("roundtrip", f"instant {inst_ns} renders as {z.local_date_time!r}, not as the local value it was derived from")
    # ZonedDateTime(local, zone, offset) accepts exactly the oracle's offsets
    if tag == "full":
        from pyoda_time import Offset
        ok_offsets = {h[1][2] for h in exp}
        cand = set(ok_offsets) | {r[2] for r in sub[:6]} | {0}
        for os_ in list(cand)[:5]:
            ctx.counters["zoned_ctor"] += 1
            try:
                z = ZonedDateTime(local_date_time=ldt, zone=zone, offset=Offset.from_seconds(os_))
                if os_ not in ok_offsets:
                    V("zoned-ctor-accepts-wrong-offset", f"ZonedDateTime(local, zone, offset={os_}) accepted; valid offsets are {sorted(ok_offsets)}", os_)
                elif gen.inst_ns(z.to_instant()) != L - os_ * NS:
                    V("zoned-ctor-instant", f"ZonedDateTime(local, zone, offset={os_}) has instant {gen.inst_ns(z.to_instant())}")
            except ValueError:
                if os_ in ok_offsets:
                    V("zoned-ctor-rejects-valid-offset", f"ZonedDateTime(local, zone, offset={os_}) rejected; valid offsets are {sorted(ok_offsets)}", os_)
            except Exception as ex:  # noqa: BLE001
                ctx.exc(ex)


def check_start_of_day(ctx, zone, zid, W, d, cal, kp=""):
    from pyoda_time import SkippedTimeError
    from vf import gen
    lo, hi = gen.cal_range(cal.id)
    if not lo <= d <= hi:
        return
    sub = W.near(d * DAY)
    best = None
    for r in sub:
        s = -BIG if r[0] is None else r[0]; e = BIG if r[1] is None else r[1]
        a = max(s, d * DAY - r[2] * NS); b = min(e, (d + 1) * DAY - r[2] * NS)
        if a < b and (best is None or a < best):
            best = a
    case = {"kind": "sod", "zone": zid, "d": d, "cal": cal.id}
    ctx.ev(); ctx.counters["start_of_day"] += 1
    date = gen.date_of(d, cal)
    try:
        r = zone.at_start_of_day(date)
        rn = gen.inst_ns(r.to_instant())
        if best is None:
            ctx.V(f"C05:{kp}start-of-day-returned-for-skipped-day", f"{zid} day {d}: at_start_of_day returned {rn} although no instant carries that local date", case, rn)
        elif rn != best or r.date != date or r.calendar is not cal or r.zone is not zone:
            ctx.V(f"C05:{kp}start-of-day", f"{zid} day {d} ({cal.id}): at_start_of_day = {rn} ({r.local_date_time!r}); earliest instant with that local date is {best}", case, rn, best)
        r2 = date.at_start_of_day_in_zone(zone)
        if gen.inst_ns(r2.to_instant()) != rn:
            ctx.V(f"C05:{kp}at_start_of_day_in_zone", f"{zid} day {d}: LocalDate.at_start_of_day_in_zone differs", case)
    except SkippedTimeError:
        if best is not None:
            ctx.V(f"C05:{kp}start-of-day-skipped", f"{zid} day {d}: at_start_of_day raised SkippedTimeError although instant {best} carries that date", case, None, best)
        else:
            # the LocalDate-side spelling must refuse a wholly skipped date as well
            try:
                r3 = date.at_start_of_day_in_zone(zone)
                ctx.V(f"C05:{kp}at_start_of_day_in_zone-returned-for-skipped-day", f"{zid} day {d}: LocalDate.at_start_of_day_in_zone returned {gen.inst_ns(r3.to_instant())} ({r3.local_date_time!r}) although no instant carries that local date "
                      f"(DateTimeZone.at_start_of_day raises SkippedTimeError)", case)
            except SkippedTimeError:
                ctx.count("wholly_skipped_days")


def run_synthetic(ctx, n_zones):
    """User-defined zones (a DateTimeZone subclass answering from an explicit interval list): interval lengths from 1 ns to months, so that the
    interval next to a gap / overlap can be much SHORTER than the jump, name-only changes, date-line jumps, sub-minute offsets."""
    from pyoda_time import DateTimeZone, Offset
    from pyoda_time.time_zones import ZoneInterval
    from vf import gen
    rng = ctx.rng

    class ListZone(DateTimeZone):
        def __init__(self, id_, intervals):
            offs = [i.wall_offset for i in intervals]
            super().__init__(id_, False, min(offs), max(offs))
            self.intervals = intervals
            self.starts = [(-BIG if not i.has_start else gen.inst_ns(i.start)) for i in intervals]

        def get_zone_interval(self, instant):
            import bisect
            return self.intervals[bisect.bisect_right(self.starts, gen.inst_ns(instant)) - 1]

    LENS = [1, NS, 60 * NS, 30 * 60 * NS, 3600 * NS, 90 * 60 * NS, 3 * 3600 * NS, DAY, 40 * DAY, 200 * DAY]
    JUMPS = [1800, -1800, 3600, -3600, 7200, -7200, 3 * 3600, -3 * 3600, 0, 86400, -86400, 45 * 60, 1, -1, 37]
    cals = gen.calendars(); iso = gen.ISO
    for zi_ in range(n_zones):
        k = rng.randint(3, 8)
        t = rng.randint(-10**18, 3 * 10**18) // NS * NS
        cuts = []
        for _ in range(k - 1):
            t += rng.choice(LENS) if rng.random() < 0.7 else rng.randint(1, 400 * DAY)
            cuts.append(t)
        off = rng.choice([0, 3600, -5 * 3600, 19800, 12 * 3600, -11 * 3600, rng.randint(-40000, 40000)])
        offs = [off]
        for _ in range(k - 1):
            nxt = offs[-1] + rng.choice(JUMPS)
            if not -64800 <= nxt <= 64800: nxt = offs[-1] - (nxt - offs[-1])
            offs.append(max(-64800, min(64800, nxt)))
        bounds = [None] + cuts + [None]
        zid = f"Synthetic/{zi_}"
        log = []; ivs = []
        for i in range(k):
            sav = rng.choice([0, 0, 3600]) if abs(offs[i]) < 60000 else 0
            nm = f"S{i}" if rng.random() < 0.8 else "SAME"
            ivs.append(ZoneInterval(name=nm, start=None if bounds[i] is None else gen.ns_inst(bounds[i]), end=None if bounds[i + 1] is None else gen.ns_inst(bounds[i + 1]),
                                    wall_offset=Offset.from_seconds(offs[i]), savings=Offset.from_seconds(sav)))
            log.append((bounds[i], bounds[i + 1], offs[i], sav, offs[i] - sav, nm))
        zone = ListZone(zid, ivs)
        W = LocalWindow(log)
        ctx.count("synthetic_zones")
        for i in range(1, k):
            tt = cuts[i - 1]; wb, wa = offs[i - 1], offs[i]; jump = abs(wa - wb)
            for base in (tt + wb * NS, tt + wa * NS):
                for dl in (-DAY, -3600 * NS, -NS, -1, 0, 1, NS, 3600 * NS, DAY, jump * NS - 1, jump * NS, -jump * NS, jump * NS // 2, (jump * NS * 3) // 4, jump * NS // 8):
                    L = base + dl
                    sub = W.near(L)
                    if len(oracle(sub, L)) > 2:
                        ctx.count("note:synthetic-local-matches-more-than-two-intervals"); continue    # outside what a 0/1/2 mapping can express
                    kp = "" if within_one_transition(log, L) else "beyond-adjacent-interval:"
                    ctx.count("synthetic_locals_within_one_transition" if not kp else "synthetic_locals_beyond_adjacent_interval")
                    ctx.key(("synthetic", min(jump, 90000), (wa > wb) - (wa < wb), (cuts[i - 1] - (cuts[i - 2] if i > 1 else -BIG)) < jump * NS, dl if abs(dl) <= NS else (dl > 0)))
                    check_local(ctx, zone, zid, W, L, iso if rng.random() < 0.85 else rng.choice(cals), "full", kp)
            for dd in (-1, 0, 1):
                d_ = (tt + wa * NS) // DAY + dd
                # the start of a day is found through the mapping of its midnight and, when that is skipped, the interval after the gap
                near_ = [c for j, c in enumerate(cuts) if c + min(offs[j], offs[j + 1]) * NS < (d_ + 2) * DAY and c + max(offs[j], offs[j + 1]) * NS >= (d_ - 1) * DAY]
                if len(near_) > 1:
                    ctx.count("note:synthetic-day-with-several-transitions-not-judged"); continue   # "earliest instant of the date" and "midnight if it exists" can disagree there
                check_start_of_day(ctx, zone, zid, W, d_, iso)
    ctx.sample({"kind": "synthetic", "zones": n_zones})


def run(ctx, shard):
    from pyoda_time import DateTimeZoneProviders
    from vf import gen, zonewalk
    for k in REQUIRED["any"] + ["single"]:
        ctx.counters.setdefault(k, 0)
    if "synthetic" in shard:
        run_synthetic(ctx, shard["synthetic"]); return
    rng = ctx.rng
    tz = DateTimeZoneProviders.tzdb
    cals = gen.calendars()
    iso = gen.ISO
    thorough = ctx.tier == "thorough"
    DISP = [-DAY, -3600 * NS, -NS, -1, 0, 1, NS, 3600 * NS, DAY]
    for zid in shard["ids"]:
        zone = tz[zid]
        log, _ = zonewalk.walk(zone, None, None if thorough else Y2100)
        segs = [log]
        if not thorough and log[-1][1] is not None:
            for s0 in [rng.randint(Y2100, gen.INST_MAX_NS - 12 * 366 * DAY) for _ in range(2)] + [gen.INST_MAX_NS - 4 * 366 * DAY]:
                l2, _ = zonewalk.walk(zone, s0, None if s0 > gen.INST_MAX_NS - 5 * 366 * DAY else s0 + 3 * 366 * DAY)
                segs.append(l2[1:-1] if len(l2) > 2 and l2[-1][1] is not None else l2[1:])
        for si, seg in enumerate(segs):
            if len(seg) < 2:
                continue
            W = LocalWindow(seg)
            trans = list(range(1, len(seg)))
            if thorough and len(trans) > 900:
                # complete for the historical part, a seeded sample of the (periodic) rule-generated tail
                hist = [k for k in trans if seg[k][0] < Y2100]
                trans = hist + rng.sample([k for k in trans if seg[k][0] >= Y2100], 500)
            for k in trans:
                t = seg[k][0]; wb = seg[k - 1][2]; wa = seg[k][2]
                jump = abs(wa - wb)
                # non-trivial classes that always get the full treatment: multi-hour/whole-day and sub-minute jumps, name-only
                # changes, and gaps entered from an interval that already has non-zero savings (negative/double DST)
                big = jump >= 7200 or jump % 60 != 0 or jump == 0 or (wa > wb and seg[k - 1][3] != 0)
                if not thorough and not big and t > Y2037 and rng.random() > 0.12:
                    continue
                if not thorough and not big and rng.random() > 0.5:
                    continue
                disp = DISP + [jump * NS - 1, jump * NS, -jump * NS] if (big or thorough) else rng.sample(DISP, 4) + [rng.choice([jump * NS - 1, -1, 0])]
                for base in (t + wb * NS, t + wa * NS):
                    for dl in disp:
                        L = base + dl
                        if not (gen.INST_MIN_NS + 3 * DAY <= L <= gen.INST_MAX_NS - 3 * DAY):
                            continue
                        if si > 0 and not (seg[0][0] is not None and seg[0][0] + 2 * DAY < L < (BIG if seg[-1][1] is None else seg[-1][1]) - 2 * DAY):
                            continue
                        if si == 0 and seg[-1][1] is not None and L > seg[-1][1] - 2 * DAY:
                            continue
                        cal = iso if rng.random() < 0.8 else rng.choice(cals)
                        ctx.key((zid, t, dl if abs(dl) <= DAY else "jump"))
                        check_local(ctx, zone, zid, W, L, cal, "full" if (big or rng.random() < 0.05) else "lite")
                if big or rng.random() < 0.25:
                    for dd in (-1, 0, 1):
                        check_start_of_day(ctx, zone, zid, W, (t + wa * NS) // DAY + dd, iso if rng.random() < 0.8 else rng.choice(cals))
                        if big or rng.random() < 0.3:      # the same day named in another calendar: the result stays in the calendar of the date asked for
                            check_start_of_day(ctx, zone, zid, W, (t + wa * NS) // DAY + dd, rng.choice(cals))
            # the first and the last local day of the supported range (the sentinels for "before/after all time" live next to them)
            edge_Ls = []
            if seg[0][0] is None and si == 0:
                edge_Ls += [gen.INST_MIN_NS + k for k in (0, 1, 12 * 3600 * NS, DAY - 1, DAY, rng.randrange(DAY))]
            if seg[-1][1] is None:
                edge_Ls += [gen.INST_MAX_NS - k for k in (0, 1, 12 * 3600 * NS, DAY - 1, DAY, rng.randrange(DAY))]
            for L in edge_Ls:
                ctx.key((zid, "edge", L)); ctx.count("range_edge_locals")
                check_local(ctx, zone, zid, W, L, iso, "full")
            # seeded local values anywhere in the segment
            lo_ns = (seg[0][0] if seg[0][0] is not None else gen.INST_MIN_NS) + 4 * DAY
            hi_ns = (seg[-1][1] if seg[-1][1] is not None else gen.INST_MAX_NS) - 4 * DAY
            if lo_ns < hi_ns:
                for _ in range(6 if not thorough else 40):
                    L = rng.randint(lo_ns, hi_ns)
                    check_local(ctx, zone, zid, W, L, rng.choice(cals), "full")
                    check_start_of_day(ctx, zone, zid, W, L // DAY, iso)
        if len(ctx.samples) < 1 and len(log) > 3:
            ctx.sample({"zone": zid, "transition": log[2][0], "wall_before": log[1][2], "wall_after": log[2][2]})


def replay(ctx, case):
    from pyoda_time import DateTimeZoneProviders
    from vf import gen, zonewalk
    ctx.distinct(2)
    for k in REQUIRED["any"] + ["single"]:
        ctx.counters.setdefault(k, 0)
    zone = DateTimeZoneProviders.tzdb[case["zone"]]
    log, _ = zonewalk.walk(zone)
    W = LocalWindow(log)
    cal = gen.cal_by_id(case.get("cal", "ISO"))
    if case["kind"] == "local":
        check_local(ctx, zone, case["zone"], W, case["L"], cal, "full")
    else:
        check_start_of_day(ctx, zone, case["zone"], W, case["d"], cal)
