"""C04 — each zone partitions the timeline into maximal offset intervals (DESIGN §3 C04)."""
from __future__ import annotations

LEVEL = "exploration"
RULE = ("every id of the bundled provider: quick walks the whole precalculated part and the tail to 2100 plus seeded 3-year windows in 2100-9990 and "
        "the last years to the end of time; thorough walks every distinct zone from the start to the end of time (exhaustive walk) and aliases to 2100; "
        "probes at interval start, start+-1 ns, end-1 ns, 32-day cache-period boundaries +-1 ns, the ends of time and seeded instants; fixed zones at "
        "every 15-minute offset plus seeded seconds; distinct = (zone, interval) logged + (zone, probe class)")
ASSUMPTIONS = ["an interval list recorded through the public API is the object judged; the offline checker is pure integer arithmetic"]
MIN_NT = {"quick": 20000, "thorough": 500000}
REQUIRED = {"any": ["intervals_walked", "probes", "offset_bounds", "get_zone_intervals_compared", "fixed_zones"]}
EXHAUSTIVE = {"thorough": True}

NS = 10**9
DAY = 86400 * NS
Y2100 = 4102444800 * NS


def shards(tier, seed):
    from pyoda_time import DateTimeZoneProviders
    ids = list(DateTimeZoneProviders.tzdb.ids)
    k = 16 if tier == "quick" else 64
    out = [{"name": f"zones:{i}", "part": "zones", "ids": ids[i::k]} for i in range(k)]
    out.append({"name": "fixed", "part": "fixed"})
    return out


def V(ctx, zid, k, what, case=None, obs=None, exp=None):
    ctx.V(f"C04:{k}", f"{zid}: {what}", dict(case or {}, zone=zid, kind="zone"), obs, exp)


def probe_points(rng, log, n_intervals, extra_seeded):
    from vf import gen
    pts = [gen.INST_MIN_NS, gen.INST_MAX_NS, gen.INST_MIN_NS + 1, gen.INST_MAX_NS - 1]
    sel = log if len(log) <= n_intervals else rng.sample(log, n_intervals)
    for r in sel:
        s, e = r[0], r[1]
        if s is not None:
            pts += [s, s + 1, s - 1, s + DAY - 1, s + DAY]
            # cache-period boundaries around the transition: 32-day periods counted from the epoch
            p = (s // (32 * DAY)) * 32 * DAY
            pts += [p, p - 1, p + 32 * DAY, p + 32 * DAY - 1, p + 1]
            # end of the UTC day of the transition and next midnight
            m = (s // DAY + 1) * DAY
            pts += [m - 1, m]
        if e is not None:
            pts += [e - 1, e]
        if s is not None and e is not None and e - s > 2:
            pts.append(rng.randint(s, e - 1))
    lo = log[0][0] if log[0][0] is not None else gen.INST_MIN_NS
    hi = log[-1][1] if log[-1][1] is not None else gen.INST_MAX_NS
    for _ in range(extra_seeded):
        pts.append(rng.randint(max(lo, gen.INST_MIN_NS), min(hi, gen.INST_MAX_NS)))
    return [p for p in pts if gen.INST_MIN_NS <= p <= gen.INST_MAX_NS]


def check_zone(ctx, zone, zid, full, rng, n_probe_intervals, n_seeded):
    from pyoda_time import Interval
    from vf import gen, zonewalk
    segments = []
    log, problems = zonewalk.walk(zone, None, None if full else Y2100)
    segments.append((log, True))
    for kind, detail in problems:
        V(ctx, zid, kind, f"walking forward: {detail}", {"detail": detail})
    if not full and log[-1][1] is not None:
        # far windows and the end of time
        last_year_ns = gen.INST_MAX_NS - 5 * 366 * DAY
        starts = [rng.randint(Y2100, last_year_ns - 4 * 366 * DAY) for _ in range(6)] + [last_year_ns]
        for s0 in starts:
            until = None if s0 == last_year_ns else s0 + 3 * 366 * DAY
            l2, p2 = zonewalk.walk(zone, s0, until)
            for kind, detail in p2:
                V(ctx, zid, kind, f"walking forward from {s0}: {detail}", {"detail": detail})
            segments.append((l2, False))
            if until is None and l2[-1][1] is not None:
                V(ctx, zid, "walk-does-not-reach-end-of-time", f"walk from {s0} stopped at {l2[-1]}", {"from": s0})
    mn, mx = zone.min_offset.seconds, zone.max_offset.seconds
    for log, from_start in segments:
        ctx.counters["intervals_walked"] += len(log); ctx.evaluations += len(log); ctx.nt_extra += len(log)
        is_last_seg = log[-1][1] is None
        for kind, detail in zonewalk.partition_problems(log, from_start, is_last_seg and (full or True)):
            V(ctx, zid, kind, f"{detail}", {"detail": detail})
        for r in log:
            ctx.counters["offset_bounds"] += 1
            if not mn <= r[2] <= mx:
                V(ctx, zid, "wall-offset-outside-min-max", f"interval {r} has wall offset outside [{mn},{mx}]", {"interval": list(r)}, r[2], (mn, mx))
        if full and from_start:
            walls = [r[2] for r in log]
            if (min(walls), max(walls)) != (mn, mx):
                ctx.count("note:min-max-not-tight")  # the property only requires containment
        idx = zonewalk.LogIndex(log)
        for p in probe_points(rng, log, n_probe_intervals, n_seeded):
            exp = idx.find(p)
            if exp is None:
                continue
            ctx.counters["probes"] += 1; ctx.evaluations += 1
            inst = gen.ns_inst(p)
            got = zonewalk.rec_of(zone.get_zone_interval(inst))
            if got != exp:
                V(ctx, zid, "probe-differs-from-walk", f"get_zone_interval({p}) = {got}; the forward walk recorded {exp} for that instant", {"instant": p}, got, exp)
            off = zone.get_utc_offset(inst).seconds
            if off != exp[2]:
                V(ctx, zid, "utc-offset-not-wall-offset", f"get_utc_offset({p}) = {off}; interval wall offset is {exp[2]}", {"instant": p}, off, exp[2])
        # get_zone_intervals over a sub-range yields the same sequence
        if len(log) >= 3:
            i0 = rng.randrange(0, len(log) - 2); i1 = min(len(log) - 1, i0 + rng.randint(1, 12))
            a = log[i0][1] - 1 if log[i0][1] is not None else None
            b = log[i1][0] + 1 if log[i1][0] is not None else None
            if a is not None and b is not None and a < b:
                ctx.counters["get_zone_intervals_compared"] += 1; ctx.evaluations += 1
                got = [zonewalk.rec_of(z) for z in zone.get_zone_intervals(interval=Interval(gen.ns_inst(a), gen.ns_inst(b)))]
                got2 = [zonewalk.rec_of(z) for z in zone.get_zone_intervals(start=gen.ns_inst(a), end=gen.ns_inst(b))]
                if got != log[i0:i1 + 1] or got2 != got:
                    V(ctx, zid, "get_zone_intervals-differs", f"get_zone_intervals([{a},{b})) yields {len(got)} intervals; the walk has {i1 - i0 + 1} there (first {got[:1]} vs {log[i0:i0 + 1]})", {"a": a, "b": b})
                # ranges that are unbounded on one or both sides (read lazily: only the first few of an open-ended enumeration)
                import itertools
                k_ = min(6, len(log) - i0)
                forms = [("[a, end of time)", lambda: Interval(gen.ns_inst(a), None), log[i0:i0 + k_], k_)]
                if log[0][0] is None:
                    j1 = min(i1, 8); bj = log[j1][0] + 1 if log[j1][0] is not None else None
                    if bj is not None:
                        forms.append(("(start of time, b)", lambda bj=bj: Interval(None, gen.ns_inst(bj)), log[:j1 + 1], j1 + 2))
                    forms.append(("(start of time, end of time)", lambda: Interval(None, None), log[:min(5, len(log))], min(5, len(log))))
                for fname, mk, want_, k2 in forms:
                    ctx.counters["get_zone_intervals_compared"] += 1; ctx.evaluations += 1
                    try:
                        got3 = [zonewalk.rec_of(z) for z in itertools.islice(iter(zone.get_zone_intervals(interval=mk())), k2)]
                    except Exception as e:  # noqa: BLE001
                        ctx.exc(e); V(ctx, zid, f"get_zone_intervals-raised:{type(e).__name__}", f"get_zone_intervals over {fname} (a={a}) raised {e!r}", {"a": a, "form": fname}); continue
                    if got3 != want_:
                        V(ctx, zid, "get_zone_intervals-differs", f"get_zone_intervals over {fname} with a={a}: first intervals {got3[:2]}; the walk has {want_[:2]}", {"a": a, "form": fname})
    return segments[0][0]


def run(ctx, shard):
    from pyoda_time import DateTimeZone, DateTimeZoneProviders, Offset
    from vf import gen, zonewalk
    for k in REQUIRED["any"]:
        ctx.counters.setdefault(k, 0)
    rng = ctx.rng
    if shard["part"] == "fixed":
        secs = list(range(-64800, 64801, 900)) + [rng.randint(-64800, 64800) for _ in range(200)] + [1, -1, 64799, -64799]
        for s in secs:
            zid = f"for_offset({s})"
            try:
                z = DateTimeZone.for_offset(Offset.from_seconds(s))
            except Exception as e:  # noqa: BLE001  (every offset within +-18 h has a fixed zone)
                ctx.exc(e); ctx.counters["fixed_zones"] += 1
                V(ctx, zid, f"fixed-zone-raised:{type(e).__name__}", f"DateTimeZone.for_offset({s} s) raised {e!r}", {"s": s}); continue
            ctx.counters["fixed_zones"] += 1; ctx.ev(); ctx.key(("fixed", s % 900 == 0, (s > 0) - (s < 0)))
            log, problems = zonewalk.walk(z)
            if problems or len(log) != 1 or log[0][:5] != (None, None, s, 0, s):
                V(ctx, zid, "fixed-zone-not-single-interval", f"fixed zone for {s}s walks as {log} {problems}", {"s": s})
            if (z.min_offset.seconds, z.max_offset.seconds) != (s, s):
                V(ctx, zid, "fixed-zone-min-max", f"min/max {z.min_offset.seconds}/{z.max_offset.seconds}", {"s": s})
            for p in (gen.INST_MIN_NS, 0, gen.INST_MAX_NS, rng.randint(gen.INST_MIN_NS, gen.INST_MAX_NS)):
                if z.get_utc_offset(gen.ns_inst(p)).seconds != s:
                    V(ctx, zid, "utc-offset-not-wall-offset", f"fixed zone offset at {p}", {"s": s})
                ctx.counters["probes"] += 1
        utc = DateTimeZone.utc
        if zonewalk.walk(utc)[0][0][:5] != (None, None, 0, 0, 0):
            V(ctx, "DateTimeZone.utc", "fixed-zone-not-single-interval", "utc is not a single zero-offset interval")
        ctx.sample({"zone": "for_offset(19800)", "log": [list(zonewalk.walk(DateTimeZone.for_offset(Offset.from_seconds(19800)))[0][0])]})
        return
    tz = DateTimeZoneProviders.tzdb
    full_all = ctx.tier == "thorough"
    canon = None
    if full_all:
        try:
            from pyoda_time.time_zones._tzdb_date_time_zone_source import TzdbDateTimeZoneSource
            canon = dict(TzdbDateTimeZoneSource.default.canonical_id_map)
        except Exception:  # noqa: BLE001
            canon = None
    for zid in shard["ids"]:
        zone = tz[zid]
        full = full_all and (canon is None or canon.get(zid, zid) == zid)
        log = check_zone(ctx, zone, zid, full, rng, 40 if not full_all else 400, 30 if not full_all else 400)
        if len(ctx.samples) < 1 and len(log) > 3:
            ctx.sample({"zone": zid, "intervals": len(log), "first": [list(r) for r in log[:2]], "last": list(log[-1])})


def replay(ctx, case):
    from pyoda_time import DateTimeZoneProviders
    ctx.distinct(2)
    for k in REQUIRED["any"]:
        ctx.counters.setdefault(k, 0)
    zid = case.get("zone")
    tz = DateTimeZoneProviders.tzdb
    if zid in tz.ids:
        check_zone(ctx, tz[zid], zid, True, ctx.rng, 400, 200)
    else:
        run(ctx, {"part": "fixed"})
