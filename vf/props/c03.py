"""C03 — Duration / Instant / Offset are exact integers (DESIGN §3 C03).

Model: a Python int of nanoseconds (seconds for Offset).  Monitors: icontract postconditions on the
real operators (record-only, so every internal call is judged too) + client-boundary wrappers for the
raise clause + accessor decomposition + public normal-form observation.
"""
from __future__ import annotations

import datetime
import math
from fractions import Fraction

LEVEL = "exploration"
RULE = ("boundary lattice per unit (0, +-1, +-(u-1), +-u, +-(u+1), +-day+-1, min, min+-1, max, max+-1) x log-uniform magnitudes up to 2^100 "
        "with random sign; operand pairs = lattice x lattice sample + seeded pairs; distinct/non-trivial key = (type, operation, sign "
        "pattern, magnitude class (bit length/8), in-range/out-of-range)")
ASSUMPTIONS = ["Python arbitrary-precision int arithmetic is the specification", "float total_* judged with 4 ulp of the larger addend (documented as approximate)"]
MIN_NT = {"quick": 400, "thorough": 1500}
REQUIRED = {"any": ["dur_factory", "dur_binop", "dur_muldiv", "inst_unix", "inst_arith", "offset_ops", "contract_evals"]}

NS_DAY = 86400 * 10**9
UNITS = {"nanoseconds": 1, "ticks": 100, "microseconds": 1000, "milliseconds": 10**6, "seconds": 10**9,
         "minutes": 60 * 10**9, "hours": 3600 * 10**9, "days": NS_DAY}


def trunc_div(a, b):
    q = abs(a) // abs(b)
    return q if (a >= 0) == (b > 0) else -q


def shards(tier, seed):
    k = 1 if tier == "quick" else 6
    out = []
    for i in range(k):
        out += [{"name": f"dur-factory:{i}", "part": "dur_factory"}, {"name": f"dur-ops:{i}", "part": "dur_ops"},
                {"name": f"dur-muldiv:{i}", "part": "dur_muldiv"}, {"name": f"instant:{i}", "part": "instant"},
                {"name": f"offset:{i}", "part": "offset"}]
    # auxiliary workload: the repository's own tests with the operator contracts switched on (their arithmetic is judged, not their assertions)
    if tier == "quick":
        out.append({"name": "repo-tests:elapsed", "part": "repo_tests", "paths": ["tests/test_duration.py", "tests/test_instant.py", "tests/test_offset.py", "tests/test_interval.py"]})
    else:
        out += [{"name": f"repo-tests:{p}", "part": "repo_tests", "paths": [p]} for p in
                ("tests/test_duration.py", "tests/test_instant.py", "tests/test_offset.py", "tests/test_interval.py", "tests/test_offset_date_time.py", "tests/test_local_date_time.py",
                 "tests/test_period.py", "tests/time_zones", "tests/text", "tests/calendars", "tests/testing" if False else "tests/test_zoned_clock.py")]
    return out


def _cls(ns):
    return (ns > 0) - (ns < 0), abs(ns).bit_length() // 8


class Mon:
    def __init__(self, ctx):
        from pyoda_time import Duration
        from vf import gen
        self.ctx = ctx
        self.MIN, self.MAX = gen.DUR_MIN_NS, gen.DUR_MAX_NS
        self.D = Duration

    def V(self, k, what, case, obs=None, exp=None):
        self.ctx.V(f"C03:{k}", what, case, obs, exp)

    def check_duration(self, d, ns, case, tag):
        ctx = self.ctx
        ctx.ev()
        got = d.to_nanoseconds()
        if got != ns:
            self.V(f"{tag}:value", f"{tag}: Duration value {got} != model {ns} for {case}", case, got, ns); return
        if not (self.MIN <= ns <= self.MAX):
            self.V(f"{tag}:out-of-range-returned", f"{tag}: out-of-range value {ns} returned instead of raising for {case}", case, got); return
        ref = self.D.from_nanoseconds(ns)
        fd = getattr(d, "_floor_days", None); nod = getattr(d, "_nanosecond_of_floor_day", None)
        if not (d == ref and hash(d) == hash(ref) and not (d != ref) and d.compare_to(ref) == 0):
            self.V(f"{tag}:denormalised", f"{tag}: result for {case} is not equal/hash-equal to from_nanoseconds({ns}) (floor_days={fd}, ns_of_day={nod})", case, (fd, nod))
            return
        if nod is not None and not (0 <= nod < NS_DAY):
            self.V(f"{tag}:denormalised", f"{tag}: private nanosecond-of-floor-day {nod} outside [0, day) for {case}", case, (fd, nod))
            return
        dd = trunc_div(ns, NS_DAY); rem = ns - dd * NS_DAY
        sg = 1 if rem >= 0 else -1; ar = abs(rem)
        exp = dict(days=dd, nanosecond_of_day=rem, hours=sg * (ar // (3600 * 10**9)), minutes=sg * (ar // (60 * 10**9) % 60),
                   seconds=sg * (ar // 10**9 % 60), milliseconds=sg * (ar // 10**6 % 1000), microseconds=sg * (ar // 10**3 % 10**6),
                   subsecond_ticks=sg * (ar // 100 % 10**7), subsecond_nanoseconds=sg * (ar % 10**9), bcl_compatible_ticks=trunc_div(ns, 100))
        for k, v in exp.items():
            try:
                g = getattr(d, k)
            except Exception as e:  # noqa: BLE001
                self.V(f"accessor:{k}:raised", f"Duration({ns}).{k} raised {e!r}", {"kind": "dur_value", "ns": ns}, repr(e)); continue
            if g != v:
                self.V(f"accessor:{k}", f"Duration({ns}).{k} = {g}, model {v}", {"kind": "dur_value", "ns": ns}, g, v)
        whole = (ns // NS_DAY) * NS_DAY  # the documented formula adds a whole-(floor-)days term and a within-day term
        for k, u in (("total_days", NS_DAY), ("total_hours", 3600 * 10**9), ("total_minutes", 60 * 10**9), ("total_seconds", 10**9),
                     ("total_milliseconds", 10**6), ("total_microseconds", 1000), ("total_ticks", 100), ("total_nanoseconds", 1)):
            g = getattr(d, k); e = Fraction(ns, u)
            big = max(abs(Fraction(whole, u)), abs(Fraction(ns - whole, u)), abs(e))
            tol = 4 * math.ulp(float(big)) if big else 0.0
            if abs(Fraction(g) - e) > Fraction(tol) + abs(e) * Fraction(1, 2**51):
                self.V(f"accessor:{k}", f"Duration({ns}).{k} = {g!r}, exact {float(e)!r}", {"kind": "dur_value", "ns": ns}, g, float(e))
        us = trunc_div(ns, 1000)
        try:
            td = d.to_timedelta()
            if td != datetime.timedelta(microseconds=us):
                self.V("to_timedelta", f"Duration({ns}).to_timedelta() = {td!r}", {"kind": "dur_value", "ns": ns}, repr(td), us)
        except OverflowError as e:
            ctx.exc(e)
            if datetime.timedelta.min <= datetime.timedelta(days=0) and abs(us) <= 86399999999999999999 and -999999999 <= us // (86400 * 10**6) <= 999999999:
                self.V("to_timedelta:raised", f"Duration({ns}).to_timedelta() raised although timedelta can hold it", {"kind": "dur_value", "ns": ns})


def install_contracts(ctx):
    """icontract postconditions on the real operators: every evaluation anywhere in the process is judged."""
    try:
        import icontract
    except ImportError:
        ctx.note("icontract unavailable: contract monitor off, boundary monitors decide")
        return False
    from pyoda_time import Duration, Instant, Offset
    from vf import gen

    def rec(name, ok, detail):
        ctx.counters["contract_evals"] += 1
        ctx.counters[f"contract:{name}"] += 1
        if not ok:
            ctx.V(f"C03:contract:{name}", f"postcondition of {name} failed: {detail}", {"kind": "contract", "name": name, "detail": detail})
        return True

    def dur_add(self, other, result):
        if not isinstance(other, Duration): return True
        return rec("Duration.__add__", result.to_nanoseconds() == self.to_nanoseconds() + other.to_nanoseconds(), [self.to_nanoseconds(), other.to_nanoseconds(), result.to_nanoseconds()])

    def dur_sub(self, other, result):
        if not isinstance(other, Duration): return True
        return rec("Duration.__sub__", result.to_nanoseconds() == self.to_nanoseconds() - other.to_nanoseconds(), [self.to_nanoseconds(), other.to_nanoseconds(), result.to_nanoseconds()])

    def dur_neg(self, result):
        return rec("Duration.__neg__", result.to_nanoseconds() == -self.to_nanoseconds(), [self.to_nanoseconds(), result.to_nanoseconds()])

    def inst_add(self, other, result):
        if not isinstance(other, Duration): return True
        return rec("Instant.__add__", gen.inst_ns(result) == gen.inst_ns(self) + other.to_nanoseconds(), [gen.inst_ns(self), other.to_nanoseconds(), gen.inst_ns(result)])

    def inst_sub(self, other, result):
        if isinstance(other, Duration):
            return rec("Instant.__sub__", gen.inst_ns(result) == gen.inst_ns(self) - other.to_nanoseconds(), [gen.inst_ns(self), other.to_nanoseconds()])
        if isinstance(other, Instant) and isinstance(result, Duration):
            return rec("Instant.__sub__i", result.to_nanoseconds() == _raw_ns(self) - _raw_ns(other), [_raw_ns(self), _raw_ns(other)])
        return True

    def _raw_ns(i):
        d = i._time_since_epoch if hasattr(i, "_time_since_epoch") else None
        return d.to_nanoseconds() if d is not None else gen.inst_ns(i)

    def off_add(self, other, result):
        if not isinstance(other, Offset): return True
        return rec("Offset.__add__", result.seconds == self.seconds + other.seconds, [self.seconds, other.seconds, result.seconds])

    def off_sub(self, other, result):
        if not isinstance(other, Offset): return True
        return rec("Offset.__sub__", result.seconds == self.seconds - other.seconds, [self.seconds, other.seconds, result.seconds])

    def off_neg(self, result):
        return rec("Offset.__neg__", result.seconds == -self.seconds, [self.seconds, result.seconds])

    class ContractBroken(Exception):
        pass

    for cls, name, cond in ((Duration, "__add__", dur_add), (Duration, "__sub__", dur_sub), (Duration, "__neg__", dur_neg),
                            (Instant, "__add__", inst_add), (Instant, "__sub__", inst_sub),
                            (Offset, "__add__", off_add), (Offset, "__sub__", off_sub), (Offset, "__neg__", off_neg)):
        orig = cls.__dict__.get(name)
        if orig is None:
            ctx.note(f"contract target {cls.__name__}.{name} missing"); continue
        setattr(cls, name, icontract.ensure(cond, error=ContractBroken)(orig))
    return True


def _call(ctx, fn, inr, case, tag, on_value):
    """Client-boundary raise monitor: in-range must return, out-of-range must raise ValueError/OverflowError."""
    try:
        r = fn()
    except (ValueError, OverflowError) as e:
        ctx.exc(e)
        if inr:
            ctx.V(f"C03:{tag}:raised-in-range", f"{tag}: raised {type(e).__name__} although the exact result is in range: {case}", case, repr(e))
        return
    except Exception as e:  # noqa: BLE001
        ctx.exc(e)
        from vf.ctx import exc_key
        if inr or not isinstance(e, ArithmeticError):
            ctx.V(f"C03:{tag}:unexpected-{exc_key(e)}", f"{tag}: unexpected {type(e).__name__}: {e} for {case}", case, repr(e))
        return
    on_value(r, inr)


def lattice_ns(rng, u, lo, hi, n_rand):
    s = {0, 1, -1, u - 1, u, u + 1, -(u - 1), -u, -(u + 1), NS_DAY - 1, NS_DAY, NS_DAY + 1, -NS_DAY + 1, -NS_DAY, -NS_DAY - 1,
         lo, lo + 1, hi - 1, hi, lo - 1, hi + 1, lo + u, hi - u, lo - u, hi + u}
    for _ in range(n_rand):
        m = rng.choice([5, 10, 20, 30, 40, 50, 53, 54, 62, 63, 64, 65, 70, 76, 77, 80, 100])
        s.add(rng.choice([1, -1]) * rng.getrandbits(m))
    return sorted(s)


def run_dur_factory(ctx, mon):
    from pyoda_time import Duration
    rng = ctx.rng
    for name, u in UNITS.items():
        f = getattr(Duration, "from_" + name)
        for ns in lattice_ns(rng, u, mon.MIN, mon.MAX, 60 if ctx.tier == "quick" else 300):
            q = trunc_div(ns, u)
            for n in {q, q + 1, q - 1}:
                case = {"kind": "dur_factory", "unit": name, "n": n}
                want = n * u; inr = mon.MIN <= want <= mon.MAX
                ctx.count("dur_factory"); ctx.key(("fac", name, _cls(want), inr))
                def ok(r, inr_, case=case, want=want, name=name):
                    if not inr_:
                        ctx.V(f"C03:from_{name}:out-of-range-returned", f"Duration.from_{name}({case['n']}) returned {r.to_nanoseconds()} ns instead of raising (range is [{mon.MIN},{mon.MAX}])", case, r.to_nanoseconds())
                    else:
                        mon.check_duration(r, want, case, f"from_{name}")
                _call(ctx, lambda f=f, n=n: f(n), inr, case, f"from_{name}", ok)
    # float arguments with an exactly representable product (eighths): the value is the exact product truncated toward zero to nanoseconds
    from fractions import Fraction
    for name, u in UNITS.items():
        f = getattr(Duration, "from_" + name)
        lim = (2**52) // u
        for m in [1, -1, 3, -6, 4, 20, -7, 12, 2**20 + 1, -(2**20) - 5] + [rng.randint(-8 * min(lim, 10**9), 8 * min(lim, 10**9)) for _ in range(12)]:
            if abs(m) > 8 * lim and lim > 0: m = m % (8 * lim)
            x = m / 8
            fr = Fraction(m, 8) * u; want = int(fr) if fr >= 0 else -int(-fr)
            case = {"kind": "dur_factory_float", "unit": name, "m8": m}
            ctx.count("dur_factory"); ctx.key(("fac-float", name, (m > 0) - (m < 0), m % 8 != 0))
            try:
                r = f(x)
            except Exception as e:  # noqa: BLE001
                ctx.exc(e); ctx.V(f"C03:from_{name}:float-raised", f"Duration.from_{name}({x!r}) raised {e!r}", case, repr(e)); continue
            mon.check_duration(r, want, case, f"from_{name}(float)")
    ctx.sample({"kind": "dur_factory", "unit": "ticks", "n": 927712935935999999998})
    # timedelta route
    for us in [0, 1, -1, 86399999999, -86400000001] + [rng.randint(-10**15, 10**15) for _ in range(200)] + [rng.choice([-1, 1]) * rng.getrandbits(rng.choice([40, 55, 62])) for _ in range(100)]:
        try:
            td = datetime.timedelta(microseconds=us)
        except OverflowError:
            continue
        case = {"kind": "dur_from_timedelta", "us": us}
        ctx.count("dur_factory")
        _call(ctx, lambda: Duration.from_timedelta(td), True, case, "from_timedelta", lambda r, _i, us=us, case=case: mon.check_duration(r, us * 1000, case, "from_timedelta"))


def run_dur_ops(ctx, mon):
    from pyoda_time import Duration
    rng = ctx.rng
    L = [v for v in lattice_ns(rng, 10**9, mon.MIN, mon.MAX, 80) if mon.MIN <= v <= mon.MAX]
    pairs = [(a, b) for a in L for b in L]
    rng.shuffle(pairs)
    n = 4000 if ctx.tier == "quick" else 60000
    pairs = pairs[:n] + [(rng.randint(mon.MIN, mon.MAX), rng.randint(mon.MIN, mon.MAX)) for _ in range(n // 4)]
    mk = Duration.from_nanoseconds
    for a, b in pairs:
        da, db = mk(a), mk(b)
        for op, fn, exp in (("add", lambda: da + db, a + b), ("sub", lambda: da - db, a - b), ("neg", lambda: -da, -a),
                            ("plus", lambda: da.plus(db), a + b), ("minus", lambda: da.minus(db), a - b),
                            ("static-add", lambda: Duration.add(da, db), a + b), ("static-subtract", lambda: Duration.subtract(da, db), a - b),
                            ("negate", lambda: Duration.negate(da), -a)):
            case = {"kind": "dur_binop", "op": op, "a": a, "b": b}
            inr = mon.MIN <= exp <= mon.MAX
            ctx.count("dur_binop"); ctx.key(("op", op, _cls(a), _cls(b), inr))
            def ok(r, inr_, case=case, exp=exp, op=op):
                if not inr_:
                    ctx.V(f"C03:{op}:out-of-range-returned", f"Duration {op} returned {r.to_nanoseconds()} for {case}; exact result {exp} is outside the range", case, r.to_nanoseconds(), exp)
                else:
                    mon.check_duration(r, exp, case, op)
            _call(ctx, fn, inr, case, op, ok)
        ctx.ev()
        if (da < db) != (a < b) or (da == db) != (a == b) or (da > db) != (a > b) or (da <= db) != (a <= b) or (da >= db) != (a >= b) or (da != db) != (a != b):
            ctx.V("C03:compare", f"Duration comparison operators disagree with int order for {a}, {b}", {"kind": "dur_cmp", "a": a, "b": b})
        c = da.compare_to(db)
        if (c > 0) - (c < 0) != (a > b) - (a < b):
            ctx.V("C03:compare_to", f"Duration.compare_to sign wrong for {a}, {b}: {c}", {"kind": "dur_cmp", "a": a, "b": b}, c)
        if Duration.max(da, db).to_nanoseconds() != max(a, b) or Duration.min(da, db).to_nanoseconds() != min(a, b):
            ctx.V("C03:minmax", f"Duration.max/min wrong for {a}, {b}", {"kind": "dur_cmp", "a": a, "b": b})
    ctx.sample({"kind": "dur_binop", "op": "add", "a": pairs[0][0], "b": pairs[0][1]})


def run_small_nanos(ctx, mon):
    """The +-(less than a day) helpers that Instant/LocalInstant/OffsetDateTime use to apply an Offset: same int model, result normalised."""
    from pyoda_time import Duration
    rng = ctx.rng
    if not hasattr(Duration, "_plus_small_nanoseconds"):
        ctx.note("Duration._plus_small_nanoseconds/_minus_small_nanoseconds not present in this tree"); return
    days = [0, 1, -1, 18262, -18262, 2, rng.randint(-10**6, 10**6), rng.randint(-10**4, 10**4)]
    nods = [0, 1, NS_DAY - 1, NS_DAY // 2, 3600 * 10**9, NS_DAY - 3600 * 10**9, 18 * 3600 * 10**9, 6 * 3600 * 10**9] + [rng.randrange(NS_DAY) for _ in range(6)]
    for dd in days:
        for nod in nods:
            a = dd * NS_DAY + nod; da = Duration.from_nanoseconds(a)
            smalls = {0, 1, -1, nod, -nod, NS_DAY - nod, -(NS_DAY - nod), nod - NS_DAY, NS_DAY - 1, -(NS_DAY - 1), 18 * 3600 * 10**9, -18 * 3600 * 10**9,
                      rng.randrange(-NS_DAY + 1, NS_DAY), rng.randrange(-64800, 64801) * 10**9}
            for sm in smalls:
                if not -NS_DAY < sm < NS_DAY: continue
                for nm, exp in (("_plus_small_nanoseconds", a + sm), ("_minus_small_nanoseconds", a - sm)):
                    case = {"kind": "dur_small", "a": a, "small": sm, "op": nm}
                    ctx.count("dur_small_nanos"); ctx.key(("small", nm, (sm > 0) - (sm < 0), exp % NS_DAY == 0, (exp // NS_DAY) - dd))
                    try:
                        r = getattr(da, nm)(sm)
                    except Exception as e:  # noqa: BLE001
                        ctx.exc(e); ctx.V(f"C03:{nm}:raised", f"Duration({a}).{nm}({sm}) raised {e!r}", case, repr(e)); continue
                    mon.check_duration(r, exp, case, nm)


def run_float_ops(ctx, mon):
    """Float operands are outside the integer model, but whatever Duration an operation returns must be a normal value inside the range
    (normalised day/nanosecond split, equal and hash-equal to the value built from its own nanosecond total)."""
    from pyoda_time import Duration
    rng = ctx.rng
    vals = [0, 1, 999, NS_DAY - 1, NS_DAY, NS_DAY + 1, 20 * 3600 * 10**9, 12 * 3600 * 10**9, -1, -NS_DAY, -20 * 3600 * 10**9, 10**15 + 7] + [rng.randrange(NS_DAY) for _ in range(20)] + \
           [rng.randint(-10**18, 10**18) for _ in range(20)]
    fl = [0.5, 0.25, 0.1, 1.0, 1.5, 2.0, 3.0, 1e-3, 1e-6, 3.7, -0.5, -2.0, 1e9, 7.0, 0.3333333333333333, 86400.0]
    for a in vals:
        da = Duration.from_nanoseconds(a)
        for f in fl + [rng.random() * 4 for _ in range(3)]:
            for nm, fn, approx in (("truediv-float", lambda: da / f, a / f), ("mul-float", lambda: da * f, a * f), ("rmul-float", lambda: f * da, a * f), ("divide-float", lambda: Duration.divide(da, f), a / f)):
                case = {"kind": "dur_float", "a": a, "f": f, "op": nm}
                ctx.count("dur_float_ops"); ctx.key(("float", nm, _cls(a), f < 1, abs(approx) >= NS_DAY))
                try:
                    r = fn()
                except (ValueError, OverflowError) as e:
                    ctx.exc(e); continue
                except Exception as e:  # noqa: BLE001
                    ctx.exc(e); ctx.V(f"C03:{nm}:raised:{type(e).__name__}", f"Duration({a}) {nm} {f!r} raised {e!r}", case, repr(e)); continue
                tot = r.to_nanoseconds()
                if abs(tot - approx) > max(2.0, abs(approx) * 1e-9):
                    ctx.V(f"C03:{nm}:value", f"Duration({a}) {nm} {f!r} = {tot} ns, expected about {approx!r}", case, tot, approx)
                else:
                    mon.check_duration(r, tot, case, nm)


def run_dur_muldiv(ctx, mon):
    from pyoda_time import Duration
    rng = ctx.rng
    L = [v for v in lattice_ns(rng, 10**9, mon.MIN, mon.MAX, 150 if ctx.tier == "quick" else 1500) if mon.MIN <= v <= mon.MAX]
    ks = [0, 1, -1, 2, -2, 3, 7, -7, 10**3, -10**6, 2**31, 2**63, 10**18 + 7, NS_DAY + 1, -(2**64) - 1]
    for a in L:
        da = Duration.from_nanoseconds(a)
        for k in ks + [rng.choice([-1, 1]) * rng.getrandbits(rng.choice([3, 10, 33, 60, 70])) for _ in range(4)]:
            exp = a * k; inr = mon.MIN <= exp <= mon.MAX
            case = {"kind": "dur_mul", "a": a, "k": k}
            ctx.count("dur_muldiv"); ctx.key(("mul", _cls(a), _cls(k), inr))
            def okm(r, inr_, case=case, exp=exp):
                if not inr_:
                    ctx.V("C03:mul:out-of-range-returned", f"Duration*int returned {r.to_nanoseconds()} for {case}", case, r.to_nanoseconds(), exp)
                else:
                    mon.check_duration(r, exp, case, "mul")
            _call(ctx, lambda: da * k, inr, case, "mul", okm)
            _call(ctx, lambda: k * da, inr, dict(case, kind="dur_rmul"), "rmul", okm)
            if k != 0:
                expd = trunc_div(a, k)
                cased = {"kind": "dur_div", "a": a, "k": k}
                ctx.key(("div", _cls(a), _cls(k)))
                def okd(r, inr_, expd=expd, cased=cased):
                    if not inr_:
                        ctx.V("C03:div:out-of-range-returned", f"Duration/int returned {r.to_nanoseconds()} for {cased}", cased, r.to_nanoseconds(), expd)
                    else:
                        mon.check_duration(r, expd, cased, "div")
                _call(ctx, lambda: da / k, mon.MIN <= expd <= mon.MAX, cased, "div", okd)


def run_instant(ctx, mon):
    from pyoda_time import Duration, Instant
    from vf import gen
    rng = ctx.rng
    IMIN, IMAX = gen.INST_MIN_NS, gen.INST_MAX_NS
    ins = gen.ns_inst; ns_of = gen.inst_ns
    nv = 300 if ctx.tier == "quick" else 3000
    vals = [IMIN, IMIN + 1, IMAX - 1, IMAX, 0, 1, -1, NS_DAY, -NS_DAY, NS_DAY - 1, -NS_DAY + 1, 999, -999, 10**9 - 1, -10**9 + 1, 99, -99, 100, -100, 101, -101] + \
           [rng.randint(IMIN, IMAX) for _ in range(nv)] + [max(IMIN, min(IMAX, gen.rand_mag(rng, IMIN, IMAX))) for _ in range(nv // 3)]
    for n in vals:
        i = ins(n); ctx.ev(); ctx.count("inst_unix")
        if ns_of(i) != n:
            ctx.V("C03:instant:plus_nanoseconds", f"epoch.plus_nanoseconds({n}) holds {ns_of(i)}", {"kind": "inst_value", "ns": n}, ns_of(i), n)
        for name, u in (("seconds", 10**9), ("milliseconds", 10**6), ("ticks", 100)):
            g = getattr(i, "to_unix_time_" + name)()
            ctx.key(("unix", name, _cls(n), n % u == 0))
            if g != n // u:
                ctx.V(f"C03:instant:to_unix_time_{name}", f"Instant({n} ns).to_unix_time_{name}() = {g}, floor is {n // u}", {"kind": "inst_value", "ns": n}, g, n // u)
            back = getattr(Instant, "from_unix_time_" + name)(n // u)
            if ns_of(back) != (n // u) * u:
                ctx.V(f"C03:instant:from_unix_time_{name}", f"Instant.from_unix_time_{name}({n // u}) holds {ns_of(back)}", {"kind": "inst_value", "ns": n}, ns_of(back), (n // u) * u)
    for name, u in (("seconds", 10**9), ("milliseconds", 10**6), ("ticks", 100)):
        f = getattr(Instant, "from_unix_time_" + name)
        for n in (IMIN // u - 1, -(-IMIN // u) - 1, IMAX // u + 1, -2**63, 2**63, 10**30, -10**30, IMIN // u, IMAX // u, (IMIN + u - 1) // u):
            inr = IMIN <= n * u <= IMAX
            case = {"kind": "inst_from_unix", "unit": name, "n": n}
            ctx.count("inst_unix"); ctx.key(("from_unix", name, inr, n > 0))
            def ok(r, inr_, case=case, n=n, u=u, name=name):
                if not inr_:
                    ctx.V(f"C03:instant:from_unix_time_{name}:out-of-range-returned", f"Instant.from_unix_time_{name}({n}) returned {r!r} instead of raising", case, repr(r))
                elif ns_of(r) != n * u:
                    ctx.V(f"C03:instant:from_unix_time_{name}", f"Instant.from_unix_time_{name}({n}) wrong", case, ns_of(r), n * u)
            _call(ctx, lambda: f(n), inr, case, f"instant:from_unix_time_{name}", ok)
    span = IMAX - IMIN
    durs = [0, 1, -1, NS_DAY, -NS_DAY, span, -span, span + 1, -span - 1] + [rng.randint(-span, span) for _ in range(60)] + [gen.rand_mag(rng, -span, span) for _ in range(40)]
    def canon(r, exp):
        """The result is the one canonical value for exp: equal to, ordered with, hashed like and zero nanoseconds away from the same instant built another way."""
        w = ins(exp)
        return ns_of(r) == exp and r == w and not (r != w) and hash(r) == hash(w) and r.compare_to(w) == 0 and (r - w).to_nanoseconds() == 0 and (w - r).to_nanoseconds() == 0
    # every other instant on a 100 ns tick (so that the exact distances to the neighbouring UTC midnights are whole ticks as well)
    for n in [v if k % 2 else v - v % 100 for k, v in enumerate(vals[: (100 if ctx.tier == "quick" else 600)])]:
        i = ins(n)
        to_next = NS_DAY - n % NS_DAY; to_prev = -(n % NS_DAY)
        for d in durs + [to_next, to_next - 100, to_next + 100, to_prev, to_prev - 100, to_prev + 100, to_next + NS_DAY, to_prev - NS_DAY]:
            try:
                dd = Duration.from_nanoseconds(d)
            except Exception:  # noqa: BLE001
                continue
            for op, exp, fn in (("+", n + d, lambda: i + dd), ("-", n - d, lambda: i - dd), ("plus", n + d, lambda: i.plus(dd)),
                                ("minus", n - d, lambda: i.minus(dd)), ("plus_nanoseconds", n + d, lambda: i.plus_nanoseconds(d)),
                                ("add", n + d, lambda: Instant.add(i, dd)), ("subtract", n - d, lambda: Instant.subtract(i, dd))):
                inr = IMIN <= exp <= IMAX
                case = {"kind": "inst_arith", "op": op, "ns": n, "d": d}
                ctx.count("inst_arith"); ctx.key(("inst", op, _cls(n), _cls(d), inr))
                def ok(r, inr_, case=case, exp=exp, op=op):
                    ctx.ev()
                    if not inr_:
                        ctx.V(f"C03:instant:{op}:out-of-range-returned", f"Instant {op} returned {r!r} for {case}; exact result {exp} outside range", case, repr(r), exp)
                    elif ns_of(r) != exp:
                        ctx.V(f"C03:instant:{op}", f"Instant {op} wrong for {case}", case, ns_of(r), exp)
                    elif not canon(r, exp):
                        ctx.V(f"C03:instant:{op}:not-canonical", f"Instant {op} for {case}: the result reports {exp} ns but is not equal to / ordered with / hashed like / zero away from the same instant built from the epoch", case, repr(r), exp)
                _call(ctx, fn, inr, case, f"instant:{op}", ok)
            if d % 100 == 0:
                exp = n + d; inr = IMIN <= exp <= IMAX
                case = {"kind": "inst_arith", "op": "plus_ticks", "ns": n, "d": d}
                _call(ctx, lambda: i.plus_ticks(d // 100), inr, case, "instant:plus_ticks",
                      lambda r, inr_, case=case, exp=exp: (ctx.V("C03:instant:plus_ticks:out-of-range-returned", f"plus_ticks returned out of range for {case}", case) if not inr_
                                                            else ((ns_of(r) != exp and ctx.V("C03:instant:plus_ticks", f"plus_ticks wrong for {case}", case, ns_of(r), exp))
                                                                  or (ns_of(r) == exp and not canon(r, exp) and ctx.V("C03:instant:plus_ticks:not-canonical", f"plus_ticks for {case}: the result reports {exp} ns but is not equal to / ordered with / hashed like / zero away from the same instant built from the epoch", case, repr(r), exp))
                                                                  or ctx.count("inst_plus_ticks"))))
        for m in vals[:40]:
            j = ins(m); ctx.ev()
            case = {"kind": "inst_diff", "a": n, "b": m}
            try:
                if (i - j).to_nanoseconds() != n - m or i.minus(j).to_nanoseconds() != n - m:
                    ctx.V("C03:instant:difference", f"Instant difference wrong for {case}", case, (i - j).to_nanoseconds(), n - m)
            except Exception as e:  # noqa: BLE001
                ctx.V("C03:instant:difference-raised", f"Instant difference raised {e!r} for {case}", case, repr(e))
            if (i < j) != (n < m) or (i == j) != (n == m) or (i > j) != (n > m) or (i <= j) != (n <= m) or (i >= j) != (n >= m) or (i != j) != (n != m):
                ctx.V("C03:instant:compare", f"Instant comparison wrong for {case}", case)
            c = i.compare_to(j)
            if (c > 0) - (c < 0) != (n > m) - (n < m):
                ctx.V("C03:instant:compare_to", f"Instant.compare_to wrong for {case}", case, c)
    # from_utc vs datetime inside 1..9999; integer model outside is covered by C15/C11
    E = datetime.datetime(1970, 1, 1)
    for _ in range(1500 if ctx.tier == "quick" else 30000):
        dt = datetime.datetime(1, 1, 1) + datetime.timedelta(seconds=rng.randrange(0, 3652059 * 86400))
        i = Instant.from_utc(dt.year, dt.month, dt.day, dt.hour, dt.minute, dt.second)
        exp = (dt - E).days * 86400 + (dt - E).seconds
        ctx.ev(); ctx.count("inst_unix")
        if i.to_unix_time_seconds() != exp:
            ctx.V("C03:instant:from_utc", f"Instant.from_utc{dt.timetuple()[:6]} = {i.to_unix_time_seconds()} s, datetime says {exp}", {"kind": "from_utc", "dt": list(dt.timetuple()[:6])}, i.to_unix_time_seconds(), exp)
    ctx.sample({"kind": "inst_arith", "op": "+", "ns": vals[30], "d": durs[12]})


def run_offset(ctx, mon):
    from pyoda_time import Offset
    rng = ctx.rng
    OM = 18 * 3600
    nv = 200 if ctx.tier == "quick" else 3000
    for s in [0, 1, -1, OM, -OM, OM - 1, -OM + 1] + [rng.randint(-OM, OM) for _ in range(nv)]:
        o = Offset.from_seconds(s); ctx.ev(); ctx.count("offset_ops")
        if (o.seconds, o.milliseconds, o.ticks, o.nanoseconds) != (s, s * 1000, s * 10**7, s * 10**9):
            ctx.V("C03:offset:accessors", f"Offset({s}) accessors wrong", {"kind": "off_value", "s": s}, (o.seconds, o.milliseconds, o.ticks, o.nanoseconds))
        if o.to_timedelta() != datetime.timedelta(seconds=s) or Offset.from_timedelta(datetime.timedelta(seconds=s)).seconds != s:
            ctx.V("C03:offset:timedelta", f"Offset({s}) timedelta conversion wrong", {"kind": "off_value", "s": s})
        for t in [0, 1, -1, OM, -OM] + [rng.randint(-OM, OM) for _ in range(10)]:
            p = Offset.from_seconds(t)
            for op, exp, fn in (("+", s + t, lambda: o + p), ("-", s - t, lambda: o - p), ("plus", s + t, lambda: o.plus(p)), ("minus", s - t, lambda: o.minus(p)),
                                ("add", s + t, lambda: Offset.add(o, p)), ("subtract", s - t, lambda: Offset.subtract(o, p))):
                inr = -OM <= exp <= OM
                case = {"kind": "off_arith", "op": op, "s": s, "t": t}
                ctx.count("offset_ops"); ctx.key(("off", op, (s > 0) - (s < 0), (t > 0) - (t < 0), inr))
                def ok(r, inr_, case=case, exp=exp, op=op):
                    ctx.ev()
                    if not inr_:
                        ctx.V(f"C03:offset:{op}:out-of-range-returned", f"Offset {op} returned {r.seconds} s for {case}", case, r.seconds, exp)
                    elif r.seconds != exp:
                        ctx.V(f"C03:offset:{op}", f"Offset {op} wrong for {case}", case, r.seconds, exp)
                _call(ctx, fn, inr, case, f"offset:{op}", ok)
            if (o < p) != (s < t) or (o == p) != (s == t) or (o > p) != (s > t) or (o <= p) != (s <= t) or (o >= p) != (s >= t):
                ctx.V("C03:offset:compare", f"Offset comparison wrong for {s}, {t}", {"kind": "off_cmp", "s": s, "t": t})
            if Offset.max(o, p).seconds != max(s, t) or Offset.min(o, p).seconds != min(s, t):
                ctx.V("C03:offset:minmax", f"Offset.max/min wrong for {s}, {t}", {"kind": "off_cmp", "s": s, "t": t})
        if (-o).seconds != -s or Offset.negate(o).seconds != -s or (+o).seconds != s:
            ctx.V("C03:offset:neg", f"Offset negation wrong for {s}", {"kind": "off_value", "s": s})
    for name, u in (("seconds", 1), ("milliseconds", 1000), ("ticks", 10**7), ("nanoseconds", 10**9)):
        f = getattr(Offset, "from_" + name)
        for v in [0, 1, -1, u - 1, -(u - 1), u, -u, OM * u, -OM * u, OM * u + 1, -OM * u - 1, OM * u + u, -OM * u - u, 2**63, -2**63] + [rng.randint(-OM * u, OM * u) for _ in range(nv)]:
            inr = -OM * u <= v <= OM * u
            case = {"kind": "off_factory", "unit": name, "v": v}
            ctx.count("offset_ops"); ctx.key(("off_from", name, (v > 0) - (v < 0), inr, v % u == 0))
            def ok(r, inr_, case=case, v=v, u=u, name=name):
                ctx.ev()
                if not inr_:
                    ctx.V(f"C03:offset:from_{name}:out-of-range-returned", f"Offset.from_{name}({v}) returned {r.seconds} s", case, r.seconds)
                elif r.seconds != trunc_div(v, u):
                    ctx.V(f"C03:offset:from_{name}", f"Offset.from_{name}({v}) = {r.seconds} s, truncation gives {trunc_div(v, u)}", case, r.seconds, trunc_div(v, u))
            _call(ctx, lambda: f(v), inr, case, f"offset:from_{name}", ok)
    # from_timedelta to the microsecond: "fractional seconds truncated" (towards zero, like every other factory), range +/- 18 h exactly
    U = 10**6
    for v in [0, 1, -1, U - 1, -(U - 1), U, -U, U + 1, -U - 1, -1_500_000, 1_500_000, OM * U, -OM * U, OM * U - 1, -OM * U + 1, OM * U + 1, -OM * U - 1, OM * U + U, -OM * U - U] \
            + [rng.randint(-OM * U, OM * U) for _ in range(nv)] + [rng.randint(-OM, OM) * U + rng.choice([-1, 1, 500_000, -500_000, 999_999, -999_999]) for _ in range(nv // 2)]:
        inr = -OM * U <= v <= OM * U
        case = {"kind": "off_factory", "unit": "timedelta_us", "v": v}
        ctx.count("offset_ops"); ctx.count("offset_from_timedelta_us"); ctx.key(("off_from", "timedelta", (v > 0) - (v < 0), inr, v % U == 0))
        def oktd(r, inr_, case=case, v=v):
            ctx.ev()
            if not inr_:
                ctx.V("C03:offset:from_timedelta:out-of-range-returned", f"Offset.from_timedelta({v} us) returned {r.seconds} s", case, r.seconds)
            elif r.seconds != trunc_div(v, U):
                ctx.V("C03:offset:from_timedelta", f"Offset.from_timedelta(timedelta(microseconds={v})) = {r.seconds} s, truncation gives {trunc_div(v, U)}", case, r.seconds, trunc_div(v, U))
        _call(ctx, lambda: Offset.from_timedelta(datetime.timedelta(microseconds=v)), inr, case, "offset:from_timedelta", oktd)
    for h in range(-19, 20):
        case = {"kind": "off_hours", "h": h}
        _call(ctx, lambda: Offset.from_hours(h), -18 <= h <= 18, case, "offset:from_hours",
              lambda r, inr_, h=h, case=case: (ctx.V("C03:offset:from_hours:out-of-range-returned", f"from_hours({h}) returned", case) if not inr_ else (r.seconds != h * 3600 and ctx.V("C03:offset:from_hours", f"from_hours({h}) wrong", case))))
        for m in (-61, -60, -59, -30, -1, 0, 1, 30, 59, 60, 61):
            exp = h * 3600 + m * 60; inr = -OM <= exp <= OM
            case = {"kind": "off_hm", "h": h, "m": m}
            ctx.count("offset_ops")
            def okhm(r, inr_, case=case, exp=exp):
                ctx.ev()
                if not inr_:
                    ctx.V("C03:offset:from_hours_and_minutes:out-of-range-returned", f"from_hours_and_minutes returned {r.seconds} for {case}", case, r.seconds)
                elif r.seconds != exp:
                    ctx.V("C03:offset:from_hours_and_minutes", f"from_hours_and_minutes wrong for {case}", case, r.seconds, exp)
            _call(ctx, lambda: Offset.from_hours_and_minutes(h, m), inr, case, "offset:from_hours_and_minutes", okhm)
    ctx.sample({"kind": "off_arith", "op": "+", "s": OM, "t": 1})


PARTS = {"dur_factory": run_dur_factory, "dur_ops": run_dur_ops, "dur_muldiv": run_dur_muldiv, "instant": run_instant, "offset": run_offset}


def run(ctx, shard):
    install_contracts(ctx)
    mon = Mon(ctx)
    if shard["part"] == "repo_tests":
        from vf.repo_tests import run_repo_tests
        before = ctx.counters.get("contract_evals", 0)
        run_repo_tests(ctx, shard["paths"])
        ctx.distinct(ctx.counters.get("contract_evals", 0) - before)
        return
    PARTS[shard["part"]](ctx, mon)
    if shard["part"] == "dur_ops":
        run_small_nanos(ctx, mon)
    if shard["part"] == "dur_muldiv":
        run_float_ops(ctx, mon)
    # contract evaluations happen in every shard that performs arithmetic; factory/muldiv shards may have none
    ctx.counters.setdefault("contract_evals", 0)


def replay(ctx, case):
    """Re-run the literal case."""
    from pyoda_time import Duration, Instant, Offset
    from vf import gen
    install_contracts(ctx)
    mon = Mon(ctx)
    k = case["kind"]
    if k == "dur_factory":
        u = UNITS[case["unit"]]; n = case["n"]; want = n * u; inr = mon.MIN <= want <= mon.MAX
        name = case["unit"]
        def ok(r, inr_):
            if not inr_:
                ctx.V(f"C03:from_{name}:out-of-range-returned", f"Duration.from_{name}({n}) returned {r.to_nanoseconds()} ns instead of raising", case, r.to_nanoseconds())
            else:
                mon.check_duration(r, want, case, f"from_{name}")
        _call(ctx, lambda: getattr(Duration, "from_" + name)(n), inr, case, f"from_{name}", ok)
    elif k == "dur_factory_float":
        from fractions import Fraction
        u = UNITS[case["unit"]]; fr = Fraction(case["m8"], 8) * u; want = int(fr) if fr >= 0 else -int(-fr)
        mon.check_duration(getattr(Duration, "from_" + case["unit"])(case["m8"] / 8), want, case, f"from_{case['unit']}(float)")
    elif k == "dur_float":
        da = Duration.from_nanoseconds(case["a"]); f = case["f"]
        r = {"truediv-float": lambda: da / f, "mul-float": lambda: da * f, "rmul-float": lambda: f * da, "divide-float": lambda: Duration.divide(da, f)}[case["op"]]()
        mon.check_duration(r, r.to_nanoseconds(), case, case["op"])
    elif k == "dur_small":
        mon.check_duration(getattr(Duration.from_nanoseconds(case["a"]), case["op"])(case["small"]), case["a"] + (case["small"] if "plus" in case["op"] else -case["small"]), case, case["op"])
    elif k == "dur_value":
        mon.check_duration(Duration.from_nanoseconds(case["ns"]), case["ns"], case, "value")
    elif k in ("dur_binop", "dur_mul", "dur_rmul", "dur_div"):
        a = case["a"]; da = Duration.from_nanoseconds(a)
        if k == "dur_binop":
            db = Duration.from_nanoseconds(case["b"]); b = case["b"]; op = case["op"]
            fn, exp = {"add": (lambda: da + db, a + b), "sub": (lambda: da - db, a - b), "neg": (lambda: -da, -a), "plus": (lambda: da.plus(db), a + b),
                       "minus": (lambda: da.minus(db), a - b), "static-add": (lambda: Duration.add(da, db), a + b),
                       "static-subtract": (lambda: Duration.subtract(da, db), a - b), "negate": (lambda: Duration.negate(da), -a)}[op]
        elif k == "dur_div":
            op = "div"; fn, exp = (lambda: da / case["k"]), trunc_div(a, case["k"])
        else:
            op = "mul" if k == "dur_mul" else "rmul"; fn, exp = (lambda: da * case["k"]), a * case["k"]
        inr = mon.MIN <= exp <= mon.MAX
        def ok2(r, inr_):
            if not inr_:
                ctx.V(f"C03:{op}:out-of-range-returned", f"{op} returned out-of-range for {case}", case, r.to_nanoseconds(), exp)
            else:
                mon.check_duration(r, exp, case, op)
        _call(ctx, fn, inr, case, op, ok2)
    else:
        # remaining kinds are re-driven by their (deterministic) part
        part = ctx.shard.get("part") or {"inst": "instant", "from": "instant", "off": "offset", "contract": "dur_ops", "dur": "dur_ops"}.get(k.split("_")[0], "instant")
        PARTS[part](ctx, mon)
    ctx.distinct(2)
