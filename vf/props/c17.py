"""C17 — built-in ISO patterns interoperate with the standard library's ISO-8601 reader/writer (DESIGN §3 C17)."""
from __future__ import annotations

import datetime as dt
import re

LEVEL = "exploration"
RULE = ("dates: all ordinals in thorough (exhaustive), boundary/month-end/seeded in quick; times to ns with fraction shapes {0, 1 digit .. 9 digits, "
        "trailing zeros}; date-times and instants uniform over years 1-9999 plus year/month edges; every whole-minute offset in +-18h; "
        "distinct key = (pattern, direction, width/fraction class, boundary class)")
ASSUMPTIONS = ["Python 3.12 datetime.fromisoformat/isoformat as the independent ISO-8601 implementation (truncates fractions to microseconds)"]
MIN_NT = {"quick": 100, "thorough": 150}
REQUIRED = {"any": ["date", "time", "ldt", "instant", "offset", "wide_years", "letter_routes", "fresh_process_orders"]}
EXHAUSTIVE = {"thorough": True}

MAXORD = 3652059
TOTAL_US = MAXORD * 86400 * 10**6


def shards(tier, seed):
    if tier == "thorough":
        n = 32; step = (MAXORD + n - 1) // n
        out = [{"name": f"dates:{i}", "part": "dates", "lo": 1 + i * step, "hi": min(MAXORD, (i + 1) * step)} for i in range(n)]
        out += [{"name": f"mixed:{i}", "part": "mixed", "n": 40000} for i in range(8)]
        out += [{"name": f"routes:{i}", "part": "routes", "orders": 12, "cultures": 60} for i in range(4)]
        return out
    return ([{"name": "dates:sample", "part": "dates_sample"}] + [{"name": f"mixed:{i}", "part": "mixed", "n": 2500} for i in range(4)] + [{"name": "offsets", "part": "offsets"}]
            + [{"name": "routes", "part": "routes", "orders": 6, "cultures": 16}])


def V(ctx, k, what, case, obs=None, exp=None):
    ctx.V(f"C17:{k}", what, case, obs, exp)


_P = {}


def pats():
    if not _P:
        from pyoda_time.text import InstantPattern, LocalDatePattern, LocalDateTimePattern, LocalTimePattern, OffsetPattern
        _P.update(t_var=LocalTimePattern.variable_precision_iso, t_hm=LocalTimePattern.hour_minute_iso, t_h=LocalTimePattern.hour_iso,
                  ldt_variable_precision_iso=LocalDateTimePattern.variable_precision_iso, ldt_date_hour_minute_iso=LocalDateTimePattern.date_hour_minute_iso,
                  ldt_date_hour_iso=LocalDateTimePattern.date_hour_iso)
        _P.update(date=LocalDatePattern.iso, t_ext=LocalTimePattern.extended_iso, t_long=LocalTimePattern.long_extended_iso, t_gen=LocalTimePattern.general_iso,
                  ldt_general_iso=LocalDateTimePattern.general_iso, ldt_extended_iso=LocalDateTimePattern.extended_iso, ldt_bcl_round_trip=LocalDateTimePattern.bcl_round_trip,
                  inst_general=InstantPattern.general, inst_extended_iso=InstantPattern.extended_iso,
                  off=OffsetPattern.general_invariant, off_z=OffsetPattern.general_invariant_with_z)
    return _P


def check_date(ctx, o):
    from pyoda_time import LocalDate
    p = pats()["date"]
    d = dt.date.fromordinal(o); ld = LocalDate.from_date(d)
    case = {"kind": "date", "o": o}
    ctx.ev()
    s = p.format(ld)
    if not re.fullmatch(r"\d{4}-\d{2}-\d{2}", s):
        V(ctx, "date-shape", f"LocalDatePattern.iso.format({d}) = {s!r} is not YYYY-MM-DD", case, s); return
    try:
        if dt.date.fromisoformat(s) != d:
            V(ctx, "date-stdlib-reads-other", f"iso text {s!r} for {d} is read by the stdlib as {dt.date.fromisoformat(s)}", case, s, str(d))
    except ValueError as e:
        V(ctx, "date-stdlib-rejects", f"iso text {s!r} for {d} is rejected by the stdlib: {e}", case, s)
    r = p.parse(d.isoformat())
    if not r.success or r.value != ld:
        V(ctx, "date-parse-stdlib-text", f"LocalDatePattern.iso.parse({d.isoformat()!r}) -> success={r.success} value={r.value if r.success else None!r}", case, r.success)


def check_time(ctx, sec, ns):
    from pyoda_time import LocalTime
    P = pats()
    lt = LocalTime.from_nanoseconds_since_midnight(sec * 10**9 + ns)
    t = dt.time(sec // 3600, sec // 60 % 60, sec % 60, ns // 1000)
    case = {"kind": "time", "sec": sec, "ns": ns}
    ndig = len(str(ns).rjust(9, "0").rstrip("0"))
    ctx.ev(); ctx.key(("time", ndig, sec in (0, 86399), sec % 3600 == 0))
    s = P["t_ext"].format(lt)
    m = re.fullmatch(r"(\d{2}):(\d{2}):(\d{2})(?:\.(\d{1,9}))?", s)
    if not m or (m.group(4) and m.group(4).endswith("0")) or (ns == 0 and m.group(4)):
        V(ctx, "time-extended-shape", f"extended_iso.format({sec}s+{ns}ns) = {s!r}: wrong widths or trailing fraction zeros", case, s)
    else:
        if (int(m.group(1)), int(m.group(2)), int(m.group(3))) != (t.hour, t.minute, t.second) or int((m.group(4) or "0").ljust(9, "0")) != ns:
            V(ctx, "time-extended-value", f"extended_iso.format({sec}s+{ns}ns) = {s!r}", case, s)
    for nm, txt in (("extended", s), ("long", P["t_long"].format(lt))):
        try:
            if dt.time.fromisoformat(txt) != t:
                V(ctx, f"time-{nm}-stdlib-reads-other", f"{txt!r} read by stdlib as {dt.time.fromisoformat(txt)}, expected {t}", case, txt, str(t))
        except ValueError as e:
            V(ctx, f"time-{nm}-stdlib-rejects", f"{txt!r} rejected by stdlib: {e}", case, txt)
    s2 = P["t_long"].format(lt)
    if not re.fullmatch(r"\d{2}:\d{2}:\d{2}\.\d{9}", s2) or int(s2[9:]) != ns:
        V(ctx, "time-long-shape", f"long_extended_iso.format = {s2!r}: must carry exactly nine fraction digits", case, s2)
    s3 = P["t_gen"].format(lt)
    if s3 != f"{t.hour:02d}:{t.minute:02d}:{t.second:02d}":
        V(ctx, "time-general-shape", f"general_iso.format = {s3!r}", case, s3)
    iso = t.isoformat()
    for nm in ("t_ext", "t_long") if t.microsecond else ("t_ext", "t_gen"):
        r = P[nm].parse(iso)
        if nm == "t_long" and not r.success:
            continue  # long form requires nine digits; stdlib writes six
        if not r.success or r.value != LocalTime.from_time(t):
            V(ctx, f"time-parse-stdlib-text:{nm}", f"{nm}.parse({iso!r}) -> success={r.success}", case, r.success)
    # variable-precision form: the shortest ISO text that still denotes exactly this value
    sv = P["t_var"].format(lt)
    tot = sec * 10**9 + ns
    want_shape = r"\d{2}" if tot % (3600 * 10**9) == 0 else (r"\d{2}:\d{2}" if tot % (60 * 10**9) == 0 else (r"\d{2}:\d{2}:\d{2}" if ns == 0 else r"\d{2}:\d{2}:\d{2}\.\d{1,9}"))
    if not re.fullmatch(want_shape, sv):
        V(ctx, "time-variable-precision-shape", f"variable_precision_iso.format({sec}s+{ns}ns) = {sv!r}; the shortest exact ISO form has shape {want_shape}", case, sv)
    rv = P["t_var"].parse(sv)
    if not rv.success or rv.value != lt:
        V(ctx, "time-own-roundtrip:t_var", f"variable_precision_iso does not round-trip {sec}s+{ns}ns via {sv!r}", case)
    if tot % (60 * 10**9) == 0:
        for nm in ("t_hm",) + (("t_h",) if tot % (3600 * 10**9) == 0 else ()):
            tx = P[nm].format(lt); r2 = P[nm].parse(tx)
            if not r2.success or r2.value != lt or not re.fullmatch(r"\d{2}(:\d{2})?", tx):
                V(ctx, f"time-own-roundtrip:{nm}", f"{nm} does not round-trip {sec}s via {tx!r}", case)
    # own round trip to the nanosecond
    for nm in ("t_ext", "t_long"):
        r = P[nm].parse(P[nm].format(lt))
        if not r.success or r.value != lt:
            V(ctx, f"time-own-roundtrip:{nm}", f"{nm} does not round-trip {sec}s+{ns}ns", case)


def check_ldt(ctx, name, us):
    from pyoda_time import LocalDateTime
    p = pats()["ldt_" + name]
    d = dt.datetime.min + dt.timedelta(microseconds=us)
    if name == "general_iso":
        d = d.replace(microsecond=0)
    case = {"kind": "ldt", "pattern": name, "us": us}
    l = LocalDateTime.from_naive_datetime(d)
    ctx.ev(); ctx.key(("ldt", name, d.year < 1000, d.microsecond == 0, d.microsecond % 1000 == 0, (d.month, d.day) in ((1, 1), (12, 31), (10, 31), (2, 29))))
    s = p.format(l)
    shape = {"general_iso": r"\d{4}-\d{2}-\d{2}T\d{2}:\d{2}:\d{2}", "extended_iso": r"\d{4}-\d{2}-\d{2}T\d{2}:\d{2}:\d{2}(\.\d{1,9})?",
             "bcl_round_trip": r"\d{4}-\d{2}-\d{2}T\d{2}:\d{2}:\d{2}\.\d{7}"}[name]
    if not re.fullmatch(shape, s) or (name == "extended_iso" and "." in s and s.endswith("0")):
        V(ctx, f"ldt-shape:{name}", f"{name}.format({d!r}) = {s!r}", case, s)
    try:
        b = dt.datetime.fromisoformat(s)
        if b != d:
            V(ctx, f"ldt-stdlib-reads-other:{name}", f"{s!r} read by stdlib as {b!r}, expected {d!r}", case, s)
    except ValueError as e:
        V(ctx, f"ldt-stdlib-rejects:{name}", f"{s!r} rejected by stdlib: {e}", case, s)
    if name != "bcl_round_trip":
        r = p.parse(d.isoformat())
        if not r.success or r.value != l:
            V(ctx, f"ldt-parse-stdlib-text:{name}", f"{name}.parse({d.isoformat()!r}) -> success={r.success}", case, r.success)
    r = p.parse(s)
    if not r.success or r.value != l:
        V(ctx, f"ldt-own-roundtrip:{name}", f"{name} does not round-trip {d!r} via {s!r}", case)


def check_ldt_variable(ctx, o, sec, ns):
    """LocalDateTime variable-precision / shortened ISO forms, to the nanosecond: the shortest exact form, readable back (and by the stdlib)."""
    from pyoda_time import LocalDate, LocalTime
    P = pats()
    d = dt.date.fromordinal(o); l = LocalDate.from_date(d).at(LocalTime.from_nanoseconds_since_midnight(sec * 10**9 + ns))
    tot = sec * 10**9 + ns
    case = {"kind": "ldt_var", "o": o, "sec": sec, "ns": ns}
    ctx.ev(); ctx.count("ldt"); ctx.key(("ldt-var", tot % (3600 * 10**9) == 0, tot % (60 * 10**9) == 0, ns == 0, 0 < ns < 100))
    s = P["ldt_variable_precision_iso"].format(l)
    tshape = r"\d{2}" if tot % (3600 * 10**9) == 0 else (r"\d{2}:\d{2}" if tot % (60 * 10**9) == 0 else (r"\d{2}:\d{2}:\d{2}" if ns == 0 else r"\d{2}:\d{2}:\d{2}\.\d{1,9}"))
    if not re.fullmatch(r"\d{4}-\d{2}-\d{2}T" + tshape, s) or ("." in s and s.endswith("0")):
        V(ctx, "ldt-variable-precision-shape", f"LocalDateTimePattern.variable_precision_iso.format({d} + {sec}s + {ns}ns) = {s!r}; the shortest exact ISO form has time shape {tshape}", case, s)
    r = P["ldt_variable_precision_iso"].parse(s)
    if not r.success or r.value != l:
        V(ctx, "ldt-own-roundtrip:variable_precision_iso", f"variable_precision_iso does not read {s!r} back as the value formatted ({d} + {sec}s + {ns}ns)", case)
    if ns % 1000 == 0:
        try:
            b = dt.datetime.fromisoformat(s if len(s) > 13 else s + ":00")
            if b != dt.datetime.combine(d, dt.time(sec // 3600, sec // 60 % 60, sec % 60, ns // 1000)):
                V(ctx, "ldt-stdlib-reads-other:variable_precision_iso", f"{s!r} read by the stdlib as {b!r}", case, s)
        except ValueError as e:
            V(ctx, "ldt-stdlib-rejects:variable_precision_iso", f"{s!r} rejected by the stdlib: {e}", case, s)
    if tot % (60 * 10**9) == 0:
        for nm in ("ldt_date_hour_minute_iso",) + (("ldt_date_hour_iso",) if tot % (3600 * 10**9) == 0 else ()):
            tx = P[nm].format(l); r2 = P[nm].parse(tx)
            if not r2.success or r2.value != l:
                V(ctx, f"ldt-own-roundtrip:{nm}", f"{nm} does not round-trip {d} + {sec}s via {tx!r}", case)


def check_instant(ctx, name, us):
    from pyoda_time import Instant
    p = pats()["inst_" + name]
    d = dt.datetime.min + dt.timedelta(microseconds=us)
    if name == "general":
        d = d.replace(microsecond=0)
    a = d.replace(tzinfo=dt.timezone.utc)
    case = {"kind": "instant", "pattern": name, "us": us}
    i = Instant.from_aware_datetime(a)
    ctx.ev(); ctx.key(("instant", name, d.year < 1000, d.microsecond == 0, (d.month, d.day) in ((1, 1), (12, 31), (10, 31), (2, 29))))
    s = p.format(i)
    shape = r"\d{4}-\d{2}-\d{2}T\d{2}:\d{2}:\d{2}Z" if name == "general" else r"\d{4}-\d{2}-\d{2}T\d{2}:\d{2}:\d{2}(\.\d{1,9})?Z"
    if not re.fullmatch(shape, s) or (("." in s) and s[:-1].endswith("0")):
        V(ctx, f"instant-shape:{name}", f"{name}.format({a!r}) = {s!r} (must be fixed width, no trailing fraction zeros, end in Z)", case, s)
    try:
        if dt.datetime.fromisoformat(s) != a:
            V(ctx, f"instant-stdlib-reads-other:{name}", f"{s!r} read by stdlib as {dt.datetime.fromisoformat(s)!r}", case, s)
    except ValueError as e:
        V(ctx, f"instant-stdlib-rejects:{name}", f"{s!r} rejected by stdlib: {e}", case, s)
    txt = a.isoformat().replace("+00:00", "Z")
    r = p.parse(txt)
    if not r.success or r.value != i:
        V(ctx, f"instant-parse-stdlib-text:{name}", f"{name}.parse({txt!r}) -> success={r.success}", case, r.success)


def check_instant_ns(ctx, us, deltas):
    """Instants that differ only below the microsecond (several within one 100 ns tick), formatted back to back by the one held
    extended_iso pattern object: each text must carry exactly that instant's nine-digit fraction (trailing zeros dropped), be read
    by the stdlib as the instant truncated to the microsecond, and parse back to the very instant."""
    from pyoda_time import Instant
    p = pats()["inst_extended_iso"]
    d = dt.datetime.min + dt.timedelta(microseconds=us)
    a = d.replace(tzinfo=dt.timezone.utc)
    base = Instant.from_aware_datetime(a)
    for k in deltas:
        i = base.plus_nanoseconds(k)
        case = {"kind": "instant_ns", "us": us, "deltas": list(deltas)}
        ctx.ev(); ctx.count("instant_sub_microsecond"); ctx.key(("instant-ns", k % 100 == 0, k == 0, d.microsecond == 0))
        s = p.format(i)
        frac = f"{d.microsecond * 1000 + k:09d}".rstrip("0")
        want = d.strftime("%Y-%m-%dT%H:%M:%S").rjust(19, "0") + ("." + frac if frac else "") + "Z"
        if s != want:
            V(ctx, "instant-sub-microsecond-text", f"extended_iso.format({a!r} + {k} ns) = {s!r}; the ISO text of that instant is {want!r}", case, s, want); continue
        try:
            if dt.datetime.fromisoformat(s) != a:
                V(ctx, "instant-stdlib-reads-other:extended_iso", f"{s!r} read by stdlib as {dt.datetime.fromisoformat(s)!r}, the instant truncated to the microsecond is {a!r}", case, s)
        except ValueError as e:
            V(ctx, "instant-stdlib-rejects:extended_iso", f"{s!r} rejected by stdlib: {e}", case, s)
        r = p.parse(s)
        if not r.success or r.value != i:
            V(ctx, "instant-own-roundtrip:extended_iso", f"extended_iso.parse({s!r}) does not give back the instant (+{k} ns)", case, r.success)


def check_offset(ctx, minutes):
    from pyoda_time import Offset
    P = pats()
    o = Offset.from_seconds(minutes * 60)
    case = {"kind": "offset", "minutes": minutes}
    ctx.ev(); ctx.key(("offset", (minutes > 0) - (minutes < 0), minutes % 60 == 0, minutes % 60 in (0, 30)))
    for name in ("off", "off_z"):
        p = P[name]
        s = p.format(o)
        if not (re.fullmatch(r"[+-]\d{2}(:\d{2})?", s) or (name == "off_z" and minutes == 0 and s == "Z")):
            V(ctx, f"offset-shape:{name}", f"{name}.format({minutes} min) = {s!r}", case, s); continue
        try:
            b = dt.datetime.fromisoformat("2000-01-01T00:00:00" + s)
            if b.utcoffset() != dt.timedelta(minutes=minutes):
                V(ctx, f"offset-stdlib-reads-other:{name}", f"offset text {s!r} for {minutes} min is read by the stdlib as {b.utcoffset()}", case, s, minutes)
        except ValueError as e:
            V(ctx, f"offset-stdlib-rejects:{name}", f"offset text {s!r} rejected by stdlib: {e}", case, s)
        tz = dt.timezone(dt.timedelta(minutes=minutes)); txt = dt.datetime(2000, 1, 1, tzinfo=tz).isoformat()[19:]
        r = p.parse(txt)
        if not r.success or r.value != o:
            V(ctx, f"offset-parse-stdlib-text:{name}", f"{name}.parse({txt!r}) -> success={r.success}", case, r.success)
        r = p.parse(s)
        if not r.success or r.value != o:
            V(ctx, f"offset-own-roundtrip:{name}", f"{name} does not round-trip {minutes} min via {s!r}", case)
    if minutes == 0 and P["off_z"].format(o) != "Z":
        V(ctx, "offset-z", f"general_invariant_with_z.format(zero) = {P['off_z'].format(o)!r}", case)


def iso_year(y):
    return ("-" if y < 0 else "") + "%04d" % abs(y)


def check_wide_years(ctx, rng, n):
    """Years outside the stdlib's 1..9999 (0 and the negative years): the documented fixed-width shape is the oracle: [-]YYYY with year 0 written 0000."""
    from pyoda_time import LocalDate, LocalTime, Offset
    P = pats()
    years = [0, -1, -9, -10, -99, -100, -999, -1000, -9998, 1, 9, 10, 99, 100, 999, 1000, 9999] + [rng.randint(-9998, 0) for _ in range(n)]
    for y in years:
        m = rng.randint(1, 12); d = rng.randint(1, 28); sec = rng.randrange(86400)
        ld = LocalDate(y, m, d); ldt = ld.at(LocalTime.from_seconds_since_midnight(sec))
        hh, mi, ss = sec // 3600, sec // 60 % 60, sec % 60
        exp_d = f"{iso_year(y)}-{m:02d}-{d:02d}"; exp_t = f"{hh:02d}:{mi:02d}:{ss:02d}"
        case = {"kind": "wide_year", "y": y, "m": m, "d": d, "sec": sec}
        ctx.ev(); ctx.count("wide_years"); ctx.key(("wide-year", (y > 0) - (y < 0), len(str(abs(y)))))
        got = {"date": P["date"].format(ld), "ldt_general_iso": P["ldt_general_iso"].format(ldt), "ldt_extended_iso": P["ldt_extended_iso"].format(ldt),
               "inst_general": P["inst_general"].format(ldt.with_offset(Offset.zero).to_instant()), "inst_extended_iso": P["inst_extended_iso"].format(ldt.with_offset(Offset.zero).to_instant())}
        want = {"date": exp_d, "ldt_general_iso": f"{exp_d}T{exp_t}", "ldt_extended_iso": f"{exp_d}T{exp_t}", "inst_general": f"{exp_d}T{exp_t}Z", "inst_extended_iso": f"{exp_d}T{exp_t}Z"}
        for k in got:
            if got[k] != want[k]:
                V(ctx, f"year-shape:{k}", f"{k} writes year {y} ({m}/{d} {exp_t}) as {got[k]!r}; fixed-width ISO text is {want[k]!r}", case, got[k], want[k])
            else:
                r = P[k].parse(want[k])
                if not r.success: V(ctx, f"year-own-parse:{k}", f"{k} rejects its own ISO text {want[k]!r}", case)


def check_routes(ctx, rng, n_orders, n_cultures):
    """The ISO patterns reached by their standard letters, in any culture and as the current culture, and str(): the same text as the built-in properties;
    and, in fresh interpreters, whatever order the built-ins are first touched in."""
    import json as _json
    import os
    import subprocess
    import sys
    from pyoda_time import Instant, LocalDate, LocalTime
    from pyoda_time import text as T
    from pyoda_time._compatibility._culture_info import CultureInfo
    from pyoda_time._compatibility._culture_types import CultureTypes
    allc = [c for c in CultureInfo.get_cultures(CultureTypes.ALL_CULTURES) if c.name]
    def seps(c):
        try:
            return (c.date_time_format.time_separator, c.date_time_format.date_separator)
        except Exception:  # noqa: BLE001
            return (":", "/")
    odd = [c for c in allc if seps(c)[0] != ":" or seps(c)[1] not in ("/", "-")]
    cults = [CultureInfo.invariant_culture] + rng.sample(odd, min(len(odd), n_cultures // 2)) + rng.sample(allc, min(len(allc), n_cultures // 2))
    TABLE = [(T.LocalDatePattern, "R", T.LocalDatePattern.iso), (T.LocalTimePattern, "o", T.LocalTimePattern.extended_iso), (T.LocalTimePattern, "O", T.LocalTimePattern.long_extended_iso),
             (T.LocalDateTimePattern, "s", T.LocalDateTimePattern.general_iso), (T.LocalDateTimePattern, "S", T.LocalDateTimePattern.extended_iso),
             (T.LocalDateTimePattern, "o", T.LocalDateTimePattern.bcl_round_trip), (T.LocalDateTimePattern, "O", T.LocalDateTimePattern.bcl_round_trip), (T.InstantPattern, "g", T.InstantPattern.general)]
    saved = CultureInfo.current_culture
    try:
        for c in cults:
            d = LocalDate(rng.randint(1, 9999), rng.randint(1, 12), rng.randint(1, 28)); t = LocalTime.from_nanoseconds_since_midnight(rng.randrange(86400) * 10**9 + rng.choice([0, 120_000_000, 1, 999_999_900]))
            vals = {"LocalDatePattern": d, "LocalTimePattern": t, "LocalDateTimePattern": d.at(t), "InstantPattern": Instant.from_utc(d.year, d.month, d.day, t.hour, t.minute, t.second)}
            for cls, L, ref in TABLE:
                v = vals[cls.__name__]
                case = {"kind": "route", "cls": cls.__name__, "letter": L, "culture": c.name}
                ctx.ev(); ctx.count("letter_routes"); ctx.key(("route", cls.__name__, L, seps(c)[0] != ":"))
                want = ref.format(v)
                try:
                    a = cls.create(L, c).format(v)
                    CultureInfo.current_culture = c
                    b = cls.create_with_current_culture(L).format(v)
                    pr = cls.create(L, c).parse(want)
                except Exception as e:  # noqa: BLE001
                    ctx.exc(e); V(ctx, f"standard-letter-raised:{cls.__name__}:{L}", f"{cls.__name__} standard pattern {L!r} in culture {c.name!r} raised {e!r}", case, repr(e)); continue
                finally:
                    CultureInfo.current_culture = saved
                if a != want or b != want:
                    V(ctx, f"standard-letter-differs:{cls.__name__}:{L}", f"{cls.__name__} standard pattern {L!r} in culture {c.name!r} (time separator {seps(c)[0]!r}) writes {a!r} / {b!r} (as current culture); the ISO pattern writes {want!r}", case, a, want)
                elif not pr.success or pr.value != ref.parse(want).value:
                    V(ctx, f"standard-letter-parse:{cls.__name__}:{L}", f"{cls.__name__} standard pattern {L!r} in culture {c.name!r} does not read the ISO text {want!r} back", case)
    finally:
        CultureInfo.current_culture = saved
    # "24:00:00" is accepted as the following midnight; anything later than that within hour 24 is not a time (the stdlib refuses all of it)
    from pyoda_time.text import InstantPattern, LocalDateTimePattern
    for base_ in ("2023-05-06T24:00:00", "1999-12-31T24:00:00"):
        for suffix, ok in (("", True), (".0", True), (".000000000", True), (".5", False), (".000000001", False), (".1000000", False)):
            for nm_, p_, z_ in (("ldt_extended_iso", LocalDateTimePattern.extended_iso, ""), ("ldt_variable_precision_iso", LocalDateTimePattern.variable_precision_iso, ""), ("inst_extended_iso", InstantPattern.extended_iso, "Z")):
                txt = base_ + suffix + z_
                ctx.ev(); ctx.count("hour24_texts")
                try:
                    r_ = p_.parse(txt)
                except Exception as e:  # noqa: BLE001
                    ctx.exc(e); continue
                if r_.success and not ok:
                    V(ctx, f"hour-24-with-fraction-accepted:{nm_}", f"{nm_}.parse({txt!r}) succeeded with {r_.value!r}: hour 24 is only valid as exactly 24:00:00 (the fraction was silently dropped)", {"kind": "route", "text": txt}, repr(r_.value))
    # the shared built-in pattern objects under several threads, and right after a call that raised: still the stdlib's text for that value
    import threading
    P = pats()
    def expect(kind, o_, sec_, us_):
        d_ = dt.date.fromordinal(o_); t_ = dt.time(sec_ // 3600, sec_ // 60 % 60, sec_ % 60, us_)
        frac = ("%06d" % us_).rstrip("0")
        tt = t_.strftime("%H:%M:%S") + ("." + frac if frac else "")
        return {"date": d_.isoformat(), "t_ext": tt, "ldt_extended_iso": d_.isoformat() + "T" + tt, "inst_extended_iso": d_.isoformat() + "T" + tt + "Z", "inst_general": d_.isoformat() + "T" + t_.strftime("%H:%M:%S") + "Z"}[kind]
    def value(kind, o_, sec_, us_):
        ld = LocalDate.from_date(dt.date.fromordinal(o_)); lt = LocalTime.from_nanoseconds_since_midnight(sec_ * 10**9 + us_ * 1000)
        return {"date": ld, "t_ext": lt, "ldt_extended_iso": ld.at(lt), "inst_extended_iso": Instant.from_utc(ld.year, ld.month, ld.day, lt.hour, lt.minute, lt.second).plus_nanoseconds(us_ * 1000),
                "inst_general": Instant.from_utc(ld.year, ld.month, ld.day, lt.hour, lt.minute, lt.second)}[kind]
    kinds = ["date", "t_ext", "ldt_extended_iso", "inst_extended_iso", "inst_general"]
    for kind in kinds:      # a call that raises must not disturb the next one
        for wrong in (object(), None, "text", LocalDate(1999, 12, 31), 5):
            try:
                P[kind].format(wrong)
            except Exception as e:  # noqa: BLE001
                ctx.exc(e)
            o_, sec_, us_ = rng.randint(1, MAXORD), rng.randrange(86400), rng.choice([0, 250000, rng.randrange(10**6)])
            ctx.ev(); ctx.count("format_after_raise")
            try:
                got = P[kind].format(value(kind, o_, sec_, us_))
            except Exception as e:  # noqa: BLE001
                got = repr(e)
            if got != expect(kind, o_, sec_, us_):
                V(ctx, f"format-after-failed-call:{kind}", f"after a format() call on the same built-in pattern had raised (argument {type(wrong).__name__}), {kind} writes {got!r} for a value whose ISO text is {expect(kind, o_, sec_, us_)!r}", {"kind": "route", "pattern": kind}, got, expect(kind, o_, sec_, us_))
    bad = []; done = [0]; few_days = [1]
    def worker(seed, only=None):
        import random
        r_ = random.Random(seed)
        for _ in range(300 if only is None else 500):
            kind = only or r_.choice(kinds)
            # few keys, many threads: when one pattern object is hammered, the values fall on a handful of days / seconds shared by all threads
            o_ = r_.randint(1, MAXORD) if only is None else r_.choice(few_days)
            sec_, us_ = r_.randrange(86400) if only is None else r_.choice([0, 1, 86399, 43200]), r_.choice([0, 250000, r_.randrange(10**6)])
            try:
                got = P[kind].format(value(kind, o_, sec_, us_))
            except Exception as e:  # noqa: BLE001
                got = repr(e)
            done[0] += 1
            if got != expect(kind, o_, sec_, us_):
                bad.append((kind, got, expect(kind, o_, sec_, us_))); return
    old_si = sys.getswitchinterval()
    try:
        sys.setswitchinterval(1e-6)
        for trial in range(6 if ctx.tier == "quick" else 30):
            few_days = [rng.randint(1, MAXORD) for _ in range(3)] + [1, MAXORD]
            only = [None, "inst_extended_iso", "ldt_extended_iso", "inst_general", "t_ext", "date"][trial % 6]     # mixed, then every pattern object hammered on its own
            ths = [threading.Thread(target=worker, args=(rng.randrange(10**9), only)) for _ in range(8)]
            [t.start() for t in ths]; [t.join(600) for t in ths]
            ctx.ev(); ctx.key(("threads", trial))
            if bad: break
    finally:
        sys.setswitchinterval(old_si)
    ctx.count("threaded_formats", done[0])
    if bad:
        V(ctx, f"concurrent-format-differs:{bad[0][0]}", f"with 8 threads formatting through the shared built-in pattern objects, {bad[0][0]} wrote {bad[0][1]!r} for a value whose ISO text is {bad[0][2]!r}", {"kind": "route", "pattern": bad[0][0]}, bad[0][1], bad[0][2])
    # first-use order, in fresh interpreters
    from vf.props import c17_child
    names = sorted(c17_child.accessors())
    ref_out = {nm: ["ok", f()] for nm, f in c17_child.accessors().items()}
    for k in range(n_orders):
        order = list(names)
        if k == 0: order.reverse()
        elif k == 1: order.sort(key=lambda s_: ("iso" in s_ or "'R'" in s_, s_))       # the ISO date pattern touched last
        else: rng.shuffle(order)
        try:
            opt = ["-O"] if k % 2 == 1 else []          # every other fresh interpreter runs with assertions compiled out
            r = subprocess.run([sys.executable, *opt, "-m", "vf.props.c17_child", _json.dumps(order)], capture_output=True, text=True, timeout=600, env=dict(os.environ), cwd=os.path.dirname(os.path.dirname(os.path.dirname(os.path.abspath(__file__)))))
            line = [ln for ln in r.stdout.splitlines() if ln.startswith("@@C17CHILD ")]
            out = _json.loads(line[-1][len("@@C17CHILD "):]) if line else None
        except subprocess.TimeoutExpired:
            out = None
        if out is None:
            ctx.inconc("first-use-order child produced no result"); continue
        ctx.count("fresh_process_orders"); ctx.key(("first-use-order", k, bool(opt)))
        if bool(opt) != bool((out.get("__optimize__") or [0, 0])[1]): ctx.note("python -O child did not run optimised")
        for nm in names:
            ctx.ev()
            if out.get(nm) != ref_out[nm]:
                V(ctx, "first-use-order", f"in a fresh interpreter ({'python -O, ' if opt else ''}built-in patterns first touched in the order {order[:4]}...), {nm} gives {out.get(nm)}; otherwise {ref_out[nm]}", {"kind": "route", "accessor": nm, "order": order}, out.get(nm), ref_out[nm])
                break


def run(ctx, shard):
    rng = ctx.rng
    part = shard["part"]
    for k in ("date", "time", "ldt", "instant", "offset"):
        ctx.counters.setdefault(k, 0)
    if part == "routes":
        check_wide_years(ctx, rng, 150 if ctx.tier == "quick" else 3000)
        check_routes(ctx, rng, shard["orders"], shard["cultures"])
        return
    if part == "dates":
        for o in range(shard["lo"], shard["hi"] + 1):
            check_date(ctx, o)
        n = shard["hi"] - shard["lo"] + 1
        ctx.count("date", n); ctx.distinct(n); ctx.sample({"kind": "date", "o": shard["lo"]})
        return
    if part == "dates_sample":
        ords = list(range(1, 500)) + list(range(MAXORD - 500, MAXORD + 1)) + [rng.randint(1, MAXORD) for _ in range(40000)]
        for y in list(range(1, 10000, 97)) + [rng.randint(1, 9999) for _ in range(60)]:
            for m in range(1, 13):
                first = dt.date(y, m, 1).toordinal()
                ords += [first, first - 1 if first > 1 else first]
        for o in ords:
            check_date(ctx, o)
            d = dt.date.fromordinal(o)
            ctx.key(("date", d.year < 10, d.year < 100, d.year < 1000, d.month, d.day >= 28))
        ctx.count("date", len(ords)); ctx.sample({"kind": "date", "o": ords[600]})
        return
    if part == "offsets":
        for m in range(-18 * 60, 18 * 60 + 1):
            check_offset(ctx, m); ctx.count("offset")
        ctx.sample({"kind": "offset", "minutes": -345})
        return
    n = shard["n"]
    fr = [0, 1, 10, 50, 99, 100, 1000, 123000000, 999999999, 500000000, 120000000, 100, 999999000, 1000000, 65000, 64999]
    for j in range(n):
        ns = rng.choice(fr) if j % 2 == 0 else rng.randrange(10**9)
        if j % 5 == 0: ns = ns // 1000 * 1000
        sec = rng.choice([0, 86399, 3600, 43200]) if j % 9 == 0 else (rng.randrange(1440) * 60 if j % 4 == 1 else rng.randrange(86400))
        check_time(ctx, sec, ns); ctx.count("time")
        if j % 3 == 0:
            check_ldt_variable(ctx, rng.randint(1, MAXORD), sec, ns)
    edges = [0, 1, TOTAL_US - 1, TOTAL_US - 10**6, 365 * 86400 * 10**6 - 1, 365 * 86400 * 10**6]
    def pick(j):
        if j % 11 == 0: return rng.choice(edges)
        if j % 7 == 0:  # a month end or start at a random year
            y = rng.randint(1, 9999); m = rng.randint(1, 12)
            first = dt.date(y, m, 1).toordinal()
            return max(0, min(TOTAL_US - 1, (first - 1 - rng.choice([0, 1])) * 86400 * 10**6 + rng.randrange(86400 * 10**6)))
        us = rng.randrange(TOTAL_US)
        if j % 3 == 0: us = us // 10**6 * 10**6 + rng.choice([0, 100000, 120000, 999999, 1, 1000])
        return us
    for j in range(n):
        for name in ("general_iso", "extended_iso", "bcl_round_trip"):
            check_ldt(ctx, name, pick(j)); ctx.count("ldt")
        for name in ("general", "extended_iso"):
            check_instant(ctx, name, pick(j)); ctx.count("instant")
        if j % 4 == 0:
            k0 = rng.randrange(0, 900, 100)
            check_instant_ns(ctx, pick(j), rng.choice([(k0 + 20, k0 + 21, k0 + 99, k0), (0, 1, 99, 100), (999, 900, 0), (k0 + rng.randrange(100), k0 + rng.randrange(100), k0)]))
    if ctx.tier == "thorough":
        for m in range(-18 * 60, 18 * 60 + 1):
            check_offset(ctx, m); ctx.count("offset")
    ctx.sample({"kind": "time", "sec": 86399, "ns": 120000000}); ctx.sample({"kind": "ldt", "pattern": "extended_iso", "us": pick(7)})


def replay(ctx, case):
    ctx.distinct(2)
    k = case["kind"]
    if k == "date": check_date(ctx, case["o"])
    elif k == "time": check_time(ctx, case["sec"], case["ns"])
    elif k == "ldt": check_ldt(ctx, case["pattern"], case["us"])
    elif k == "instant": check_instant(ctx, case["pattern"], case["us"])
    elif k == "instant_ns": check_instant_ns(ctx, case["us"], case["deltas"])
    elif k == "offset": check_offset(ctx, case["minutes"])
