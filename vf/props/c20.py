"""C20 — damaged time-zone data is rejected with the documented error, promptly (DESIGN §3 C20). Fault enumeration."""
from __future__ import annotations

import io
import signal
import time

LEVEL = "fault_enumeration"
RULE = ("fault model over both real files: (T) truncation points (quick: every prefix of the first 4 KiB, every field boundary +-2, seeded; thorough: EVERY prefix), "
        "(S) single-byte substitutions with {00,01,7f,80,ff,b^1,b^80,b+-1} (full file seeded; every position of a zone body delivered in a reduced carrier "
        "stream), (K) 2-4 byte clustered/scattered substitutions, (I/D) single-byte insertions/deletions; each case: from_stream, get_ids, DateTimeZoneCache, "
        "ids, cache[id] and source.for_id for every id; distinct key = (fault kind, field id hit, outcome class)")
ASSUMPTIONS = ["outcome oracle: completed or InvalidPyodaDataError; promptness decided on executed-line counts (sys.monitoring), never on wall time", "RLIMIT_AS of the worker as memory ceiling"]
MIN_NT = {"quick": 30, "thorough": 60}
REQUIRED = {"any": ["cases", "loads_ok", "loads_rejected", "zones_fetched", "structured_alias_faults", "structured_rule_faults", "structured_name_faults", "structured_mapping_faults"]}
EXHAUSTIVE = {"thorough": True}

VALS = (0x00, 0x01, 0x7F, 0x80, 0xFF)
CASE_ALARM_S = 30
BLOCK_TICK_S = 10
MEM_CEILING = 2 << 30


class CaseTimeout(BaseException):
    pass


def _alarm(signum, frame):
    raise CaseTimeout()


def shards(tier, seed):
    from vf.props.c06 import file_bytes
    out = []
    for f in ("bundled", "2013b"):
        data = file_bytes(f)
        if data is None:
            continue
        n = len(data)
        if tier == "quick":
            out += [{"name": f"{f}:T-head:{i}", "file": f, "mode": "T", "lo": i * 1024, "hi": min(n, (i + 1) * 1024)} for i in range(4)]
            out += [{"name": f"{f}:T-fields", "file": f, "mode": "T-fields", "sub": "T"}, {"name": f"{f}:field-ids", "file": f, "mode": "T-fields", "sub": "F"},
                    {"name": f"{f}:varint-inflation", "file": f, "mode": "T-fields", "sub": "V"}]
            out += [{"name": f"{f}:seeded:{i}", "file": f, "mode": "seeded", "n": 130} for i in range(6)]
            out += [{"name": f"{f}:carrier:{i}", "file": f, "mode": "carrier", "zones": 4, "vals": 2} for i in range(6)]
            out += [{"name": f"{f}:structured:{sub}", "file": f, "mode": "structured", "sub": sub, "n": 30} for sub in "ARPW"]
        else:
            k = 48; step = (n + k - 1) // k
            out += [{"name": f"{f}:T:{i}", "file": f, "mode": "T", "lo": i * step, "hi": min(n + 1, (i + 1) * step)} for i in range(k)]
            out += [{"name": f"{f}:T-fields", "file": f, "mode": "T-fields", "sub": "T"}, {"name": f"{f}:field-ids", "file": f, "mode": "T-fields", "sub": "F"},
                    {"name": f"{f}:varint-inflation", "file": f, "mode": "T-fields", "sub": "V"}]
            out += [{"name": f"{f}:seeded:{i}", "file": f, "mode": "seeded", "n": 3000} for i in range(24)]
            out += [{"name": f"{f}:carrier:{i}", "file": f, "mode": "carrier-all", "i": i, "k": 32} for i in range(32)]
            out += [{"name": f"{f}:structured:{sub}:{i}", "file": f, "mode": "structured", "sub": sub, "n": None, "i": i, "k": 6} for sub in "ARPW" for i in range(6)]
    return out


def field_table(data):
    """[(field_id, header_start, body_start, end)] by the independent reader."""
    from vf.models import nzd_ref
    r = nzd_ref.R(data); r.i = 4; out = []
    while r.more():
        a = r.i; fid = r.byte(); n = r.count(); b = r.i
        out.append((fid, a, b, b + n)); r.i = b + n
    return out


def field_at(table, pos):
    for fid, a, b, e in table:
        if a <= pos < e:
            return fid
    return "header" if pos < 4 else "eof"


def varint(n):
    out = bytearray()
    while True:
        x = n & 0x7F; n >>= 7
        if n: out.append(x | 0x80)
        else:
            out.append(x); return bytes(out)


def carrier(data, table, zone_field):
    """Reduced but legitimate stream: header, string pool, version, empty id map, windows mapping, one zone."""
    parts = [data[:4]]
    for fid, a, b, e in table:
        if fid in (0, 2, 4):
            parts.append(data[a:e])
    parts.append(bytes([3]) + varint(1) + b"\x00")  # empty alias map
    fid, a, b, e = zone_field
    zstart = sum(len(p) for p in parts)
    parts.append(data[a:e])
    return b"".join(parts), zstart, zstart + (b - a), zstart + (e - a)


class Runner:
    def __init__(self, ctx, which):
        from pyoda_time.time_zones import DateTimeZoneCache
        from pyoda_time.time_zones._tzdb_date_time_zone_source import TzdbDateTimeZoneSource
        from pyoda_time.utility import InvalidPyodaDataError
        self.ctx = ctx; self.which = which
        self.Source = TzdbDateTimeZoneSource; self.Cache = DateTimeZoneCache; self.Bad = InvalidPyodaDataError
        self.baseline_lines = None
        signal.signal(signal.SIGALRM, _alarm)

    def attempt(self, b, want=None):
        """Returns (outcome, detail). outcome: 'ok' | 'rejected' | ('violation', key, text)."""
        from vf.ctx import exc_key
        zones = 0; zrej = 0
        try:
            src = self.Source.from_stream(io.BytesIO(b))
            ids = list(src.get_ids())
            cache = self.Cache(src)
            cids = list(cache.ids)
        except self.Bad:
            return "rejected", (0, 0)
        except CaseTimeout:
            raise
        except BaseException as e:  # noqa: BLE001
            return ("violation", f"load:{exc_key(e)}", f"loading raised {type(e).__name__}: {str(e)[:120]}"), (0, 0)
        if want is not None:
            # fetch the zones the fault can have touched plus a seeded sample (full-file faults inside one zone field); ids() were listed in full above
            sel = want(cids)
        else:
            sel = cids
        for n_, i in enumerate(sel):
            routes = (("cache[]", lambda: cache[i]), ("source.for_id", lambda: src.for_id(i))) if (want is None or n_ % 4 == 0) else (("cache[]", lambda: cache[i]),)
            for nm, fn in routes:
                try:
                    fn(); zones += 1
                except self.Bad:
                    zrej += 1
                except CaseTimeout:
                    raise
                except BaseException as e:  # noqa: BLE001
                    return ("violation", f"zone:{exc_key(e)}", f"{nm}({i!r}) raised {type(e).__name__}: {str(e)[:120]}"), (zones, zrej)
        return "ok", (zones, zrej)

    def count_lines(self, b, cap, want=None):
        """Executed-line count of one attempt (sys.monitoring LINE events), stopping at `cap`.
        A run that executes no line at all between two watchdog ticks is blocked (a lock that is never released, a read that never returns):
        it is stopped and reported as -1."""
        import sys
        mon = sys.monitoring; tool = 3
        n = [0]; last = [-10**9]; blocked = [False]

        class Cap(CaseTimeout):      # attempt() lets CaseTimeout through (and nothing else), so the stop signal must be one
            pass

        def tick(signum, frame):
            if n[0] - last[0] < 200:          # (this handler's own few lines are counted too)
                blocked[0] = True
                raise Cap()
            last[0] = n[0]
            signal.alarm(BLOCK_TICK_S)

        def cb(code, line):
            n[0] += 1
            if n[0] > cap:
                mon.set_events(tool, 0)      # stop counting first: the cap must be raised exactly once, not again from the clean-up code
                raise Cap()
        try:
            mon.use_tool_id(tool, "vf-c20")
        except ValueError:
            pass
        mon.register_callback(tool, mon.events.LINE, cb)
        mon.set_events(tool, mon.events.LINE)
        old_handler = signal.signal(signal.SIGALRM, tick)
        signal.alarm(BLOCK_TICK_S)
        try:
            try:
                self.attempt(b, want)
            except Cap:
                pass
        finally:
            signal.alarm(0); signal.signal(signal.SIGALRM, old_handler)
            mon.set_events(tool, 0); mon.register_callback(tool, mon.events.LINE, None)
            try:
                mon.free_tool_id(tool)
            except Exception:  # noqa: BLE001
                pass
        return -1 if blocked[0] else n[0]

    def run_case(self, b, label, fkey, want=None):
        ctx = self.ctx
        if getattr(self, "hangs", 0) >= 3:
            ctx.count("cases_skipped_after_three_hangs"); return      # each hang costs the watchdog time; three witnesses are enough
        ctx.ev(); ctx.counters["cases"] += 1
        t0 = time.time()
        signal.alarm(CASE_ALARM_S)
        try:
            outcome, (zones, zrej) = self.attempt(b, want)
        except CaseTimeout:
            outcome, zones, zrej = "slow", 0, 0
        except MemoryError:
            outcome, zones, zrej = ("violation", "MemoryError", "memory ceiling reached"), 0, 0
        finally:
            signal.alarm(0)
        case = {"kind": "fault", "file": self.which, "label": label}
        if outcome == "slow":
            # the wall-clock alarm only triggers the measurement; the verdict is on executed lines, against the SAME operations on the intact file
            base = max(1000, self.count_lines(self.intact, 10**9, want))
            cap = 50 * base
            n = self.count_lines(b, cap, want)
            if n == -1:
                self.hangs = getattr(self, "hangs", 0) + 1
                ctx.V("C20:not-prompt", f"{self.which} fault {label}: blocked - no line executed for {BLOCK_TICK_S} s while the same operations on the intact file take {base} lines in all (a wait that never ends)", case, "blocked", base)
            elif n > cap:
                self.hangs = getattr(self, "hangs", 0) + 1
                ctx.V("C20:not-prompt", f"{self.which} fault {label}: executes more than 50x the lines the same operations take on the intact file ({n} > {cap}) - treated as a hang", case, n, cap)
            else:
                ctx.count("slow_but_bounded"); ctx.note(f"case {label} hit the {CASE_ALARM_S}s wall watchdog but is bounded in steps ({n} lines) - not judged on wall time")
            return
        if outcome == "ok":
            ctx.counters["loads_ok"] += 1; oc = "ok" if zrej == 0 else "ok+zones-rejected"
        elif outcome == "rejected":
            ctx.counters["loads_rejected"] += 1; oc = "rejected"
        else:
            _, key, text = outcome
            oc = "violation"
            ctx.V(f"C20:{key}", f"{self.which} fault {label}: {text}", case)
        ctx.counters["zones_fetched"] += zones; ctx.counters["zones_rejected"] += zrej
        ctx.key((label[0], fkey, oc))


def apply_fault(data, label):
    b = bytearray(data)
    k = label[0]
    if k == "T": return bytes(b[:label[1]])
    if k == "S": b[label[1]] = label[2]; return bytes(b)
    if k == "K":
        for p, v in zip(label[1], label[2]): b[p] = v
        return bytes(b)
    if k == "I": b.insert(label[1], label[2]); return bytes(b)
    if k == "D": del b[label[1]]; return bytes(b)
    raise ValueError(k)


def sub_values(orig, rng, n):
    cand = list(dict.fromkeys([v for v in VALS + (orig ^ 1, orig ^ 0x80, (orig + 1) & 255, (orig - 1) & 255) if v != orig]))
    return cand if n is None else rng.sample(cand, min(n, len(cand)))


def run(ctx, shard):
    import resource

    from vf.models import nzd_ref
    from vf.props.c06 import file_bytes
    try:
        resource.setrlimit(resource.RLIMIT_AS, (MEM_CEILING, MEM_CEILING))   # memory ceiling of the fault model (DESIGN C20)
    except Exception as e:  # noqa: BLE001
        ctx.note(f"could not set the memory ceiling: {e!r}")
    for k in REQUIRED["any"] + ["zones_rejected"]:
        ctx.counters.setdefault(k, 0)
    which = shard["file"]; data = file_bytes(which); n = len(data)
    table = field_table(data)
    R = Runner(ctx, which); R.intact = data
    rng = ctx.rng
    mode = shard["mode"]
    pool, _zones, idmap, _version = nzd_ref.parse(data)
    idmap = idmap or {}
    known_ids = set(_zones) | set(idmap)
    if mode == "T":
        for p in range(shard["lo"], min(shard["hi"], n + 1)):
            R.run_case(data[:p], ["T", p], field_at(table, p))
        ctx.sample({"file": which, "fault": ["T", shard["lo"]]})
    elif mode == "T-fields":
        pts = set()
        for fid, a, b, e in table:
            for q in (a, b, e):
                for dlt in (-2, -1, 0, 1, 2):
                    if 0 <= q + dlt <= n: pts.add(q + dlt)
        pts = sorted(pts)
        if ctx.tier == "quick" and len(pts) > 600:
            pts = sorted(rng.sample(pts, 600))
        sub = shard.get("sub", "TFV")
        for p in (pts if "T" in sub else []):
            R.run_case(data[:p], ["T", p], field_at(table, p))
        # intact file
        R.run_case(data, ["T", n], "intact")
        # (F) field-id byte replaced by every other id 0..8 (duplicates of single-instance fields, zones before the string pool, unknown ids)
        heads = [t for t in table if t[0] != 1] + rng.sample([t for t in table if t[0] == 1], 10 if ctx.tier == "quick" else 120)
        for fid, a, b, e in (heads if "F" in sub else []):
            for v in range(0, 9):
                if v != fid:
                    R.run_case(apply_fault(data, ["S", a, v]), ["S", a, v], f"field-id:{fid}->{v}")
        # (V) a count/length varint inflated to 4 and 5 bytes (allocation bombs), at the first bytes of fields and zone bodies
        for fid, a, b, e in (rng.sample(table, 10 if ctx.tier == "quick" else 150) if "V" in sub else []):
            for off in range(0, 6):
                p = b + off
                if p + 5 > e: break
                for pat in (b"\xff\xff\xff\x7f", b"\xff\xff\xff\xff\x07"):
                    bb = bytearray(data); bb[p:p + len(pat)] = pat
                    zid = None
                    if fid == 1:
                        try:
                            zid = nzd_ref.R(data[b:e], pool).string()
                        except Exception:  # noqa: BLE001
                            zid = None
                    rel = {zid} | {k_ for k_, v_ in idmap.items() if v_ == zid} if zid else None
                    want = (lambda cids, rel=rel: [c for c in cids if c in rel] + [c for c in cids if c not in known_ids][:10] + list(cids)[:5]) if rel else None
                    R.run_case(bytes(bb), ["K", list(range(p, p + len(pat))), list(pat)], f"varint-inflation:{fid}", want)
        ctx.sample({"file": which, "fault": ["T", pts[len(pts) // 2]], "fields": len(table)})
    elif mode == "seeded":
        for _ in range(shard["n"]):
            kind = rng.choice("SSSKKID")
            if kind == "S":
                p = rng.randrange(n); label = ["S", p, rng.choice(sub_values(data[p], rng, None))]
            elif kind == "K":
                k = rng.randint(2, 4); p0 = rng.randrange(n)
                ps = sorted({min(n - 1, p0 + rng.randint(0, 6)) for _ in range(k)}) if rng.random() < 0.5 else sorted({rng.randrange(n) for _ in range(k)})
                label = ["K", ps, [rng.randrange(256) for _ in ps]]
            elif kind == "I":
                label = ["I", rng.randrange(n + 1), rng.randrange(256)]
            else:
                label = ["D", rng.randrange(n)]
            pos = label[1][0] if kind == "K" else label[1]
            positions = label[1] if kind == "K" else [label[1]]
            hit = {field_at(table, min(q, n - 1)) for q in positions}
            want = None
            if ctx.tier == "quick" or rng.random() < 0.8:
                if hit <= {1}:
                    # the fault lies inside zone fields only: those zones (and their aliases) + a seeded sample of the others
                    zids = set()
                    for q in positions:
                        for fid, a, b_, e in table:
                            if a <= q < e:
                                try:
                                    zids.add(nzd_ref.R(data[b_:e], pool).string())
                                except Exception:  # noqa: BLE001
                                    pass
                    rel = zids | {k_ for k_, v_ in idmap.items() if v_ in zids}
                    seedn = rng.randrange(10**9)
                    def want(cids, rel=rel, seedn=seedn):
                        import random as _r
                        rr = _r.Random(seedn)
                        rest = [c for c in cids if c not in rel]
                        return [c for c in cids if c in rel] + rr.sample(rest, min(len(rest), 12)) + [c for c in cids if c not in rel and c not in known_ids][:20]
                elif kind in "ID" or hit & {"header"}:
                    want = None
            R.run_case(apply_fault(data, label), label, field_at(table, min(pos, n - 1)), want)
        ctx.sample({"file": which, "fault": label})
    elif mode == "structured":
        run_structured(ctx, R, data, table, shard["sub"], shard["n"], (shard["i"], shard["k"]) if "i" in shard else None)
    else:
        zfields = [t for t in table if t[0] == 1]
        if mode == "carrier":
            chosen = rng.sample(zfields, min(len(zfields), shard["zones"])); nv = shard["vals"]
        else:
            chosen = zfields[shard["i"]::shard["k"]]; nv = None
        for zf in chosen:
            cdata, zs, zb, ze = carrier(data, table, zf)
            R.run_case(cdata, ["carrier-intact", zf[1]], "zone")
            for off in range(0, min(10, ze - zb - 5)):
                for pat in (b"\xff\xff\xff\x7f", b"\xff\xff\xff\xff\x07"):
                    bb = bytearray(cdata); bb[zb + off:zb + off + len(pat)] = pat
                    R.run_case(bytes(bb), ["CV", zf[1], off, len(pat)], "zone-varint-inflation")
            for p in range(zs, ze):
                for v in sub_values(cdata[p], rng, nv):
                    b = bytearray(cdata); b[p] = v
                    R.run_case(bytes(b), ["C", zf[1], p - zs, v], "zone-header" if p < zb else "zone-body")
        ctx.sample({"file": which, "carrier_zone_field_at": chosen[0][1] if chosen else None, "carrier_bytes": len(cdata) if chosen else 0})


def structure(data, table):
    """Byte positions inside the container by the independent reader: pool strings, alias-map entries, zone-body field spans."""
    from vf.models import nzd_ref
    from vf.props.c14 import traced_spans
    pool_pos = []; pool = []
    alias = []
    zones = []
    for fid, a, b, e in table:
        if fid == 0 and not pool:
            r = nzd_ref.R(data); r.i = b; n = r.count()
            for _ in range(n):
                ln = r.count(); pool_pos.append((r.i, r.i + ln)); pool.append(data[r.i:r.i + ln].decode("utf-8")); r.i += ln
        elif fid == 3:
            r = nzd_ref.R(data); r.i = b; n = r.count()
            for _ in range(n):
                ka = r.i; k = r.count(); va = r.i; v = r.count(); alias.append({"key": k, "key_at": (ka, va), "val": v, "val_at": (va, r.i)})
    for fid, a, b, e in table:
        if fid == 1:
            r = nzd_ref.R(data); r.i = b; idx = r.count(); typ = r.byte(); body0 = r.i
            spans = []
            if typ == 2:
                try:
                    spans = [(k, body0 + x, body0 + y) for k, x, y in traced_spans(data[body0:e], pool)]
                except Exception:  # noqa: BLE001
                    spans = []
            zones.append({"field": (fid, a, b, e), "id_index": idx, "type_at": body0 - 1, "spans": spans})
    return pool, pool_pos, alias, zones


def run_structured(ctx, R, data, table, sub, n, part):
    """Faults that keep the container well-formed but make its CONTENT inconsistent (still only a few substituted bytes):
    (A) alias-map entries re-pointed: at another alias (chains), at each other (cycles), at themselves, at a non-zone string, out of the pool;
    (R) one yearly rule of a zone's tail overwritten, whole or field by field, with its sibling rule's bytes (coinciding / swapped rules);
    (P) a character of a zone's id or of one of its names replaced by a formatting / control / invalid-UTF-8 byte, together with damage to that zone's body
        (so that the name reaches whatever message is built)."""
    rng = ctx.rng
    pool, pool_pos, alias, zones = structure(data, table)
    n_ = len(data)

    def vlen(x):
        return len(varint(x))

    def take(seq, k):
        seq = list(seq)
        if part is not None: seq = seq[part[0]::part[1]]
        return seq if k is None or len(seq) <= k else rng.sample(seq, k)
    if sub == "A":
        keys = {e["key"] for e in alias}
        for e in take(alias, n):
            same = [o for o in alias if o is not e and vlen(o["key"]) == vlen(e["val"])]
            targets = []
            if same:
                o = rng.choice(same); targets.append(("chain", [(e["val_at"], o["key"])], [e["key"], o["key"], o["val"]]))
                o2 = rng.choice(same)
                if vlen(e["key"]) == vlen(o2["val"]):
                    targets.append(("cycle", [(e["val_at"], o2["key"]), (o2["val_at"], e["key"])], [e["key"], o2["key"]]))
            if vlen(e["key"]) == vlen(e["val"]):
                targets.append(("self", [(e["val_at"], e["key"])], [e["key"]]))
            nz = [i for i in range(len(pool)) if i not in keys and vlen(i) == vlen(e["val"]) and "/" not in pool[i]]
            if nz: targets.append(("not-a-zone", [(e["val_at"], rng.choice(nz))], [e["key"]]))
            big = (1 << (7 * vlen(e["val"]))) - 1
            targets.append(("outside-pool", [(e["val_at"], big)], [e["key"]]))
            for nm, edits, involved in targets:
                ps = []; vs = []
                for (a, b), val in edits:
                    enc = varint(val)
                    if len(enc) != b - a: break
                    ps += list(range(a, b)); vs += list(enc)
                else:
                    names = {pool[i] for i in involved if i < len(pool)}
                    want = (lambda cids, names=names: [c for c in cids if c in names] + list(cids)[:3])
                    bb = bytearray(data)
                    for p_, v_ in zip(ps, vs): bb[p_] = v_
                    ctx.count("structured_alias_faults")
                    R.run_case(bytes(bb), ["K", ps, vs], f"alias-{nm}", want)
        ctx.sample({"file": R.which, "fault": "alias-map", "entries": len(alias)})
    elif sub == "W":
        # the Windows-zone mapping field: groups of ids with their own counts. Faults: a group emptied, the list cut short right after an emptied
        # group, a group's territory re-pointed at the primary-territory string, the list count off by one
        from vf.models import nzd_ref
        wf = [t for t in table if t[0] == 4]
        cases_w = 0
        for fid, a, b, e in wf:
            r = nzd_ref.R(data); r.i = b
            for _ in range(3): r.count()
            total_at = r.i; total = r.count(); total_len = r.i - total_at
            entries = []
            try:
                for k in range(total):
                    st = r.i; r.count(); terr_at = r.i; terr = r.count(); cnt_at = r.i; cnt = r.count(); cnt_len = r.i - cnt_at
                    for _ in range(cnt): r.count()
                    entries.append({"k": k, "terr_at": terr_at, "terr": terr, "terr_len": cnt_at - terr_at, "cnt_at": cnt_at, "cnt": cnt, "cnt_len": cnt_len})
            except Exception:  # noqa: BLE001
                pass
            prim = [en for en in entries if en["terr"] < len(pool) and pool[en["terr"]] == "001"]
            prim_idx = prim[0]["terr"] if prim else None
            for en in take(entries, n):
                edits = []
                if en["cnt_len"] == 1:
                    edits.append(("group-emptied", [(en["cnt_at"], 0)]))
                    if vlen(en["k"] + 1) == total_len:
                        edits.append(("list-cut-after-emptied-group", [(en["cnt_at"], 0)] + list(zip(range(total_at, total_at + total_len), varint(en["k"] + 1)))))
                    if prim_idx is not None and vlen(prim_idx) == en["terr_len"]:
                        edits.append(("territory-primary+emptied", [(en["cnt_at"], 0)] + list(zip(range(en["terr_at"], en["terr_at"] + en["terr_len"]), varint(prim_idx)))
                                      + (list(zip(range(total_at, total_at + total_len), varint(en["k"] + 1))) if vlen(en["k"] + 1) == total_len else [])))
                    edits.append(("group-count+1", [(en["cnt_at"], (en["cnt"] + 1) & 0x7F)]))
                for nm, ed in edits:
                    bb = bytearray(data); ps = []; vs = []
                    for at, v_ in ed: bb[at] = v_; ps.append(at); vs.append(v_)
                    ctx.count("structured_mapping_faults"); cases_w += 1
                    R.run_case(bytes(bb), ["K", ps, vs], f"windows-{nm}", lambda cids: list(cids)[:4])
            for dv in (-1, 1):
                enc = varint(total + dv)
                if len(enc) == total_len:
                    bb = bytearray(data); bb[total_at:total_at + total_len] = enc
                    ctx.count("structured_mapping_faults")
                    R.run_case(bytes(bb), ["K", list(range(total_at, total_at + total_len)), list(enc)], f"windows-list-count{dv:+d}", lambda cids: list(cids)[:4])
        if not wf: ctx.count("structured_mapping_faults", 0); ctx.note("this file has no Windows-zone mapping field")
        ctx.sample({"file": R.which, "fault": "windows-mapping", "fields": len(wf)})
    elif sub == "R":
        tailed = [z for z in zones if any(k.startswith("dst-rule") for k, _, _ in z["spans"])]
        for z in take(tailed, n):
            sp = {k: (a, b) for k, a, b in z["spans"] if k.startswith(("std-rule", "dst-rule"))}
            fields = ["flags", "month", "day", "millis:time-of-day"]
            edits = []
            for src, dst in (("std-rule", "dst-rule"), ("dst-rule", "std-rule")):
                whole = []
                okw = True
                for f in fields:
                    (sa, sb), (da, db) = sp[f"{src}:{f}"], sp[f"{dst}:{f}"]
                    if sb - sa == db - da:
                        edits.append((f"{dst}:{f}<-{src}", [(da, data[sa:sb])]))
                        whole.append((da, data[sa:sb]))
                    else:
                        okw = False
                if okw: edits.append((f"{dst}<-{src}", whole))
                # month / day of one rule set to every other small value (coincidences with the sibling rule included)
                (ma, mb) = sp[f"{dst}:month"]
                if mb - ma == 1:
                    for mv in range(0, 14):
                        if mv != data[ma]: edits.append((f"{dst}:month={mv}", [(ma, bytes([mv]))]))
            for nm, ed in edits:
                bb = bytearray(data); ps = []; vs = []
                for at, bs in ed:
                    bb[at:at + len(bs)] = bs; ps += list(range(at, at + len(bs))); vs += list(bs)
                if bytes(bb) == data: continue
                cdata = carrier(bytes(bb), table, z["field"])[0]
                ctx.count("structured_rule_faults")
                R.run_case(cdata, ["CK", z["field"][1], ps, vs], "rule-" + nm.split(":")[-1].split("<")[0].split("=")[0])
        ctx.sample({"file": R.which, "fault": "rule-splice", "zones_with_tail": len(tailed)})
    else:
        POISON = [0x7B, 0x7D, 0x25, 0x5C, 0x00, 0x27, 0xFF, 0x0A]
        for z in take(zones, n):
            name_idx = {z["id_index"]}
            r_names = [(a, b) for k, a, b in z["spans"] if k == "name"]
            from vf.models import nzd_ref
            for a, b in r_names[:6]:
                rr = nzd_ref.R(data); rr.i = a; name_idx.add(rr.count())
            damages = [("type", z["type_at"], 9), ("type", z["type_at"], 0)]
            tails = [a for k, a, b in z["spans"] if k == "has-tail"]
            if tails: damages.append(("has-tail", tails[0], 2))
            months = [a for k, a, b in z["spans"] if k.endswith(":month")]
            if months: damages.append(("month", months[0], 0x7F))
            for idx in take(sorted(name_idx), 3):
                if idx >= len(pool_pos) or pool_pos[idx][0] == pool_pos[idx][1]: continue
                a, b = pool_pos[idx]
                for pv in rng.sample(POISON, 3):
                    at = rng.randrange(a, b)
                    for dnm, dat, dv in [rng.choice(damages), ("none", None, None)]:
                        bb = bytearray(data); ps = [at]; vs = [pv]
                        bb[at] = pv
                        if dat is not None:
                            bb[dat] = dv; ps.append(dat); vs.append(dv)
                        cdata = carrier(bytes(bb), table, z["field"])[0]
                        ctx.count("structured_name_faults")
                        R.run_case(cdata, ["CK", z["field"][1], ps, vs], f"name-poison-{pv:02x}+{dnm}")
        ctx.sample({"file": R.which, "fault": "name-poison", "zones": len(zones)})


def replay(ctx, case):
    from vf.props.c06 import file_bytes
    ctx.distinct(2)
    for k in REQUIRED["any"] + ["zones_rejected"]:
        ctx.counters.setdefault(k, 0)
    which = case["file"]; data = file_bytes(which); table = field_table(data)
    R = Runner(ctx, which); R.intact = data
    label = case["label"]
    if label[0] == "C":
        zf = next(t for t in table if t[1] == label[1])
        cdata, zs, zb, ze = carrier(data, table, zf)
        b = bytearray(cdata); b[zs + label[2]] = label[3]
        R.run_case(bytes(b), label, "zone")
    elif label[0] == "CV":
        zf = next(t for t in table if t[1] == label[1])
        cdata, zs, zb, ze = carrier(data, table, zf)
        pat = b"\xff\xff\xff\x7f" if label[3] == 4 else b"\xff\xff\xff\xff\x07"
        b = bytearray(cdata); b[zb + label[2]:zb + label[2] + len(pat)] = pat
        R.run_case(bytes(b), label, "zone")
    elif label[0] == "CK":
        zf = next(t for t in table if t[1] == label[1])
        bb = bytearray(data)
        for p_, v_ in zip(label[2], label[3]): bb[p_] = v_
        R.run_case(carrier(bytes(bb), table, zf)[0], label, "zone")
    elif label[0] == "carrier-intact":
        zf = next(t for t in table if t[1] == label[1])
        R.run_case(carrier(data, table, zf)[0], label, "zone")
    else:
        R.run_case(apply_fault(data, label), label, "replay")
