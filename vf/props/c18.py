"""C18 — Interval / DateInterval behave as the sets they denote (DESIGN §3 C18).

Model: DateInterval <-> Python range of day numbers; Interval <-> half-open pair of ints/±inf.
"""
from __future__ import annotations

LEVEL = "exploration"
RULE = ("pairs of intervals instantiated for all 13 Allen relations plus one-day/one-ns adjacency around seeded anchors and "
        "at both ends of every calendar's range, bounded x unbounded Interval combinations, YearMonth.to_date_interval for "
        "seeded months; a case is non-trivial/distinct by (kind, calendar, relation class, boundedness, edge-of-range flag, lengths)")
ASSUMPTIONS = ["Python int/set arithmetic as the set model", "day numbers via the C01 day<->date mapping (checked separately)"]
MIN_NT = {"quick": 300, "thorough": 1500}
REQUIRED = {"any": ["dateinterval_pairs", "interval_pairs", "yearmonth_intervals"]}


def shards(tier, seed):
    from pyoda_time import CalendarSystem
    n = 200 if tier == "quick" else 4000
    out = [{"name": f"date:{cid}", "kind": "date", "cal": cid, "n": n} for cid in CalendarSystem.ids]
    k = 4 if tier == "quick" else 16
    out += [{"name": f"interval:{i}", "kind": "interval", "n": (4000 if tier == "quick" else 60000)} for i in range(k)]
    # the same (year, month) numbers through every calendar inside one process, in seeded calendar order
    out += [{"name": f"ym-cross:{i}", "kind": "ym-cross", "n": 40 if tier == "quick" else 600} for i in range(1 if tier == "quick" else 4)]
    return out


def _rel(a, la, b, lb):
    """Allen-like relation class of [a,a+la] vs [b,b+lb] (inclusive day ranges)."""
    ae, be = a + la, b + lb
    if ae + 1 < b: return "before"
    if ae + 1 == b: return "meets"
    if be + 1 < a: return "after"
    if be + 1 == a: return "met-by"
    if a == b and ae == be: return "equal"
    if a == b: return "starts" if ae < be else "started-by"
    if ae == be: return "finishes" if a > b else "finished-by"
    if a > b and ae < be: return "during"
    if a < b and ae > be: return "contains"
    return "overlaps" if a < b else "overlapped-by"


def check_dateinterval(ctx, case):
    from pyoda_time import CalendarSystem, DateInterval
    from vf import gen
    cid = case["cal"]; cal = CalendarSystem.for_id(cid)
    lo, hi = gen.cal_range(cid)
    a, la, b, lb = case["a"], case["la"], case["b"], case["lb"]
    D = lambda n: gen.date_of(n, cal)  # noqa: E731
    A = DateInterval(D(a), D(a + la)); B = DateInterval(D(b), D(b + lb))
    sa = range(a, a + la + 1); sb = range(b, b + lb + 1)
    ssa, ssb = set(sa), set(sb)
    ctx.ev(); ctx.count("dateinterval_pairs")
    ctx.key(("date", cid, _rel(a, la, b, lb), min(la, 3), min(lb, 3), a <= lo + 1, a + la >= hi - 1))
    def V(k, obs=None, exp=None):
        ctx.V(f"C18:dateinterval-{k}", f"DateInterval {k} wrong in {cid}: A=[{a},{a+la}] B=[{b},{b+lb}] observed={obs!r} expected={exp!r}", case, obs, exp)
    # iteration is repeatable whatever an earlier, abandoned or nested iteration did
    if la >= 1 and la <= 60:
        F = DateInterval(D(a), D(a + la))
        g0 = iter(F); first = next(g0)
        nested = [(gen.day_of(x), sum(1 for _ in F)) for x in F][:3]
        again = [gen.day_of(x) for x in F]
        if gen.day_of(first) != a or again != list(sa) or any(n_ != la + 1 for _, n_ in nested) or any(D(a) == y for y in F) is not True:
            V("iter-after-partial-iteration", again[:5], list(sa)[:5])
        if [gen.day_of(x) for x in g0] != list(sa)[1:]: V("iter-resumed", None, None)
    if len(A) != len(sa): V("len", len(A), len(sa))
    it = [gen.day_of(x) for x in A]
    if it != list(sa): V("iter", it[:5], list(sa)[:5])
    for x in range(min(a, b) - 2, max(a + la, b + lb) + 3):
        if lo <= x <= hi:
            dx = D(x)
            if (dx in A) != (x in ssa): V("contains-day", (x, dx in A), x in ssa)
            if A.contains(dx) != (x in ssa): V("contains-day-method", x, x in ssa)
    if (B in A) != (ssb <= ssa): V("contains-interval", B in A, ssb <= ssa)
    if A.contains(B) != (ssb <= ssa): V("contains-interval-method", A.contains(B), ssb <= ssa)
    i = A & B; si = ssa & ssb
    if (i is None) != (not si): V("and-none", i, sorted(si)[:3])
    elif i is not None and (gen.day_of(i.start), gen.day_of(i.end)) != (min(si), max(si)):
        V("and", (gen.day_of(i.start), gen.day_of(i.end)), (min(si), max(si)))
    i2 = A.intersection(B)
    if (i2 is None) != (i is None) or (i2 is not None and i2 != i): V("intersection-method", i2, i)
    u = A | B; su = ssa | ssb; contiguous = (max(su) - min(su) + 1 == len(su))
    if (u is None) != (not contiguous): V("or-none", u, contiguous)
    elif u is not None and (gen.day_of(u.start), gen.day_of(u.end)) != (min(su), max(su)):
        V("or", (gen.day_of(u.start), gen.day_of(u.end)), (min(su), max(su)))
    u2 = A.union(B)
    if (u2 is None) != (u is None) or (u2 is not None and u2 != u): V("union-method", u2, u)
    # results of | and & are intervals like any other: their length, iteration, truthiness and further unions follow the day-set model
    for nm, r_, sr in (("or", u, su), ("and", i, si)):
        if r_ is None or not sr or (nm == "or" and not contiguous): continue
        ctx.count("derived_results")
        if len(r_) != len(sr): V(f"{nm}-result-len", len(r_), len(sr))
        if bool(r_) is not True: V(f"{nm}-result-falsy", bool(r_), True)
        if len(sr) <= 60 and [gen.day_of(x) for x in r_] != sorted(sr): V(f"{nm}-result-iter", None, None)
        fresh = DateInterval(r_.start, r_.end)
        if r_ != fresh or hash(r_) != hash(fresh) or len(fresh) != len(r_): V(f"{nm}-result-vs-fresh", len(r_), len(fresh))
        for gap in (1, 2):
            c0 = max(sr) + gap; c1 = min(sr) - gap
            if c0 + 2 <= hi:
                C_ = DateInterval(D(c0), D(c0 + 2)); w = r_ | C_; w2 = C_ | r_
                if (w is None) != (gap == 2) or (w2 is None) != (gap == 2) or (w is not None and (gen.day_of(w.start), gen.day_of(w.end), len(w)) != (min(sr), c0 + 2, c0 + 3 - min(sr))):
                    V(f"{nm}-result-chained-union", w and (gen.day_of(w.start), gen.day_of(w.end), len(w)), (gap, min(sr), c0 + 2))
            if c1 - 1 >= lo:
                C_ = DateInterval(D(c1 - 1), D(c1)); w = r_ | C_
                if (w is None) != (gap == 2) or (w is not None and (gen.day_of(w.start), gen.day_of(w.end), len(w)) != (c1 - 1, max(sr), max(sr) - c1 + 2)):
                    V(f"{nm}-result-chained-union", w and (gen.day_of(w.start), gen.day_of(w.end), len(w)), (gap, c1 - 1, max(sr)))
    if (A == B) != (ssa == ssb): V("eq", A == B, ssa == ssb)
    if (A != B) != (ssa != ssb): V("ne", A != B, ssa != ssb)
    if A == B and hash(A) != hash(B): V("hash")
    if A.start != D(a) or A.end != D(a + la) or A.calendar is not cal: V("bounds")
    if la <= 40 and [gen.day_of(x) for x in iter(A)] != list(sa): V("iter-protocol")


def check_dateinterval_ctor(ctx, case):
    from pyoda_time import CalendarSystem, DateInterval, LocalDate
    from vf import gen
    cid = case["cal"]; cal = CalendarSystem.for_id(cid)
    lo, hi = gen.cal_range(cid)
    ctx.ev(4); ctx.count("dateinterval_ctor")
    def V(k, extra=""):
        ctx.V(f"C18:dateinterval-{k}", f"DateInterval {k} in {cid} {extra}", case)
    x = case["x"]
    try:
        DateInterval(gen.date_of(x + 1, cal), gen.date_of(x, cal)); V("ctor-end-before-start-accepted")
    except ValueError:
        pass
    other = CalendarSystem.iso if cal is not CalendarSystem.iso else CalendarSystem.julian
    olo, ohi = gen.cal_range(other.id)
    y = min(max(x, olo), ohi - 5)
    try:
        DateInterval(gen.date_of(x, cal), gen.date_of(max(y, x) + 2, other)); V("ctor-mixed-calendars-accepted")
    except ValueError:
        pass
    # ... also when the two dates carry the same year/month/day numbers in different calendars
    d0 = gen.date_of(x, cal); y0, m0, dd0 = gen.ymd(d0)
    for oc in (CalendarSystem.iso, CalendarSystem.julian, CalendarSystem.gregorian, CalendarSystem.coptic):
        if oc is cal: continue
        try:
            twin = LocalDate(y0, m0, dd0, oc)
        except Exception:  # noqa: BLE001  (no such date in that calendar)
            continue
        for a_, b_ in ((d0, twin), (twin, d0)):
            try:
                DateInterval(a_, b_); V("ctor-mixed-calendars-accepted", f"same y/m/d {y0}-{m0}-{dd0} in {a_.calendar.id} and {b_.calendar.id}")
            except ValueError:
                pass
    A = DateInterval(gen.date_of(x, cal), gen.date_of(x + 1, cal))
    O = DateInterval(gen.date_of(y, other), gen.date_of(y + 1, other))
    for nm, f in (("and", lambda: A & O), ("or", lambda: A | O), ("contains-interval", lambda: O in A), ("contains-day", lambda: gen.date_of(y, other) in A)):
        try:
            f(); V(f"{nm}-mixed-calendars-accepted")
        except ValueError:
            pass
    if A == O: V("eq-mixed-calendars")


def check_yearmonth(ctx, case):
    from pyoda_time import CalendarSystem, YearMonth
    from vf import gen
    cid = case["cal"]; cal = CalendarSystem.for_id(cid); y, m = case["y"], case["m"]
    ctx.ev(); ctx.count("yearmonth_intervals"); ctx.key(("ym", cid, m, y == cal.min_year, y == cal.max_year))
    iv = YearMonth(year=y, month=m, calendar=cal).to_date_interval()
    dim = cal.get_days_in_month(y, m)
    ok = (len(iv) == dim and gen.ymd(iv.start) == (y, m, 1) and gen.ymd(iv.end) == (y, m, dim)
          and gen.day_of(iv.end) - gen.day_of(iv.start) + 1 == dim and iv.calendar is cal)
    if not ok:
        ctx.V("C18:yearmonth-to-date-interval", f"YearMonth({y},{m},{cid}).to_date_interval() = {iv!r}, days_in_month={dim}", case, repr(iv), dim)


def check_interval(ctx, case):
    from pyoda_time import Interval
    from vf import gen
    a, b, c, d = case["a"], case["b"], case["c"], case["d"]
    ins = gen.ns_inst
    INF = float("inf")
    ctx.ev(); ctx.count("interval_pairs")
    def V(k, obs=None, exp=None):
        ctx.V(f"C18:interval-{k}", f"Interval {k}: [{a},{b}) vs [{c},{d}) observed={obs!r} expected={exp!r}", case, obs, exp)
    sa = -INF if a is None else a; sb = INF if b is None else b
    try:
        iv = Interval(None if a is None else ins(a), None if b is None else ins(b))
    except ValueError:
        if sb >= sa: V("ctor-raises")
        else: ctx.count("interval_ctor_rejected")
        return
    if sb < sa:
        V("ctor-end-before-start-accepted"); return
    ctx.key(("iv", a is None, b is None, c is None, d is None, _irel(sa, sb, c, d)))
    def observe(iv, tag):
        if iv.has_start != (a is not None) or iv.has_end != (b is not None): V(tag + "has", (iv.has_start, iv.has_end))
        pts = [gen.INST_MIN_NS, gen.INST_MAX_NS] + [v + k for v in (a, b, c, d) if v is not None for k in (-1, 0, 1) if gen.INST_MIN_NS <= v + k <= gen.INST_MAX_NS]
        for x in pts:
            exp = sa <= x < sb
            # documented: an interval with no end contains Instant.max_value
            ix = ins(x)
            if (ix in iv) != exp: V(tag + "contains", (x, ix in iv), exp)
            if iv.contains(ix) != exp: V(tag + "contains-method", x, exp)
        for nm, val in (("start", a), ("end", b)):
            try:
                g = getattr(iv, nm)
                if val is None: V(tag + f"{nm}-unbounded-returned", repr(g))
                elif gen.inst_ns(g) != val: V(tag + nm, gen.inst_ns(g), val)
            except RuntimeError:
                if val is not None: V(tag + f"{nm}-raises")
        try:
            dur = iv.duration
            if a is None or b is None: V(tag + "duration-unbounded-returned", repr(dur))
            elif dur.to_nanoseconds() != b - a: V(tag + "duration", dur.to_nanoseconds(), b - a)
        except (RuntimeError, OverflowError, ValueError) as e:
            ctx.exc(e)
            if a is not None and b is not None and gen.DUR_MIN_NS <= b - a <= gen.DUR_MAX_NS: V(tag + "duration-raises", repr(e))
        dec = list(iv)
        if len(dec) != 2 or (dec[0] is None) != (a is None) or (dec[1] is None) != (b is None) or (a is not None and gen.inst_ns(dec[0]) != a) or (b is not None and gen.inst_ns(dec[1]) != b):
            V(tag + "deconstruct", [repr(x) for x in dec], (a, b))

    observe(iv, "")
    # the text form names the bounds it has (and the start/end-of-time markers only for the bounds it lacks)
    try:
        from pyoda_time.text import InstantPattern
        want_txt = ("StartOfTime" if a is None else InstantPattern.extended_iso.format(ins(a))) + "/" + ("EndOfTime" if b is None else InstantPattern.extended_iso.format(ins(b)))
        for nm_, txt in (("repr", repr(iv)), ("str", str(iv))):
            if txt != want_txt: V(f"text-form:{nm_}", txt, want_txt)
    except Exception as e:  # noqa: BLE001
        ctx.exc(e); V(f"text-form-raised:{type(e).__name__}", repr(e))
    # a copy (copy / deepcopy / pickle round trip) of an interval - bounded or not - is the same interval
    import copy
    import pickle
    for cn, cf in (("copy", copy.copy), ("deepcopy", copy.deepcopy), ("pickle", lambda x: pickle.loads(pickle.dumps(x)))):
        try:
            iv2 = cf(iv)
        except Exception as e:  # noqa: BLE001  (protocol not supported: not judged)
            ctx.exc(e); ctx.count("interval_copy_unsupported"); continue
        ctx.count("interval_copies")
        try:
            observe(iv2, f"{cn}:")
            if iv2 != iv or hash(iv2) != hash(iv): V(f"{cn}:not-equal-to-original", repr(iv2), repr(iv))
        except Exception as e:  # noqa: BLE001
            ctx.exc(e); V(f"{cn}:raised:{type(e).__name__}", repr(e))
    # equality against a second interval
    sc = -INF if c is None else c; sd = INF if d is None else d
    if sd >= sc:
        jv = Interval(None if c is None else ins(c), None if d is None else ins(d))
        exp = (sa, sb) == (sc, sd)
        if (iv == jv) != exp: V("eq", iv == jv, exp)
        if (iv != jv) == exp: V("ne", iv != jv, not exp)
        if exp and hash(iv) != hash(jv): V("hash")


def _irel(sa, sb, c, d):
    INF = float("inf")
    sc = -INF if c is None else c; sd = INF if d is None else d
    if sd < sc: return "second-invalid"
    if sb < sc: return "before"
    if sb == sc: return "meets"
    if sd < sa: return "after"
    if sd == sa: return "met-by"
    if (sa, sb) == (sc, sd): return "equal"
    if sa <= sc and sd <= sb: return "contains"
    if sc <= sa and sb <= sd: return "during"
    return "overlaps"


CHECKS = {"dateint": check_dateinterval, "datector": check_dateinterval_ctor, "ym": check_yearmonth, "interval": check_interval}


def _guard(ctx, case):
    from vf.ctx import exc_key
    try:
        CHECKS[case["kind"]](ctx, case)
    except Exception as e:  # noqa: BLE001
        ctx.exc(e)
        ctx.V(f"C18:unexpected-{exc_key(e)}", f"unexpected {type(e).__name__}: {e} for case {case}", case, repr(e))


def run(ctx, shard):
    from vf import gen
    rng = ctx.rng
    if shard["kind"] == "date":
        cid = shard["cal"]; cal = gen.cal_by_id(cid)
        lo, hi = gen.cal_range(cid)
        anchors = [lo, hi - 40, lo + 1, hi - 41]
        for n in range(shard["n"]):
            a = rng.choice(anchors) if n % 4 == 0 else rng.randint(lo, hi - 40)
            la = rng.choice([0, 0, 1, 2, rng.randint(0, 12), rng.randint(0, 400)])
            # instantiate a relation: pick b relative to a
            mode = n % 16
            if mode == 0: b, lb = a + la + 1, rng.randint(0, 5)            # meets
            elif mode == 1: b, lb = a + la + 2, rng.randint(0, 5)          # before (gap of one day)
            elif mode == 2: lb = rng.randint(0, 5); b = a - lb - 1         # met-by
            elif mode == 3: lb = rng.randint(0, 5); b = a - lb - 2         # after
            elif mode == 4: b, lb = a, la                                   # equal
            elif mode == 5: b, lb = a, la + rng.randint(1, 4)               # starts
            elif mode == 6: lb = max(0, la - rng.randint(0, 3)); b = a + la - lb  # finished-by
            elif mode == 7: b = a + rng.randint(0, max(0, la)); lb = rng.randint(0, max(0, a + la - b))  # nested
            elif mode == 8: b, lb = a + la, rng.randint(0, 4)               # overlaps at one day
            else: b = a + rng.randint(-15, 15); lb = rng.randint(0, 12)
            if n % 8 == 4 and n % 3 == 0:      # A (or B) ends on the calendar's last day / starts on its first
                which = (n // 24) % 3
                if which == 0: a = hi - la
                elif which == 1: a = lo
                else: a = hi - la - rng.randint(0, 3)
                if mode == 4: b, lb = a, la
                else:
                    b = a + rng.randint(0, la); lb = rng.randint(0, a + la - b) if which != 2 else hi - b
            if b < lo or b + lb > hi or a + la > hi:
                continue
            case = {"kind": "dateint", "cal": cid, "a": a, "la": la, "b": b, "lb": lb}
            _guard(ctx, case)
            if n < 2: ctx.sample(case, cap=2)
        for x in (lo + 5, hi - 9, rng.randint(lo + 5, hi - 9)):
            _guard(ctx, {"kind": "datector", "cal": cid, "x": x})
        nym = 60 if ctx.tier == "quick" else 2400
        years = [cal.min_year, cal.max_year] + [rng.randint(cal.min_year, cal.max_year) for _ in range(nym // 12)]
        for y in years:
            for m in range(1, cal.get_months_in_year(y) + 1):
                _guard(ctx, {"kind": "ym", "cal": cid, "y": y, "m": m})
    elif shard["kind"] == "ym-cross":
        cals = gen.calendars()
        for n in range(shard["n"]):
            y = rng.choice([1400, 5784, 1, 9000, rng.randint(1, 9300), rng.randint(1300, 1500), rng.randint(1, 900)])
            order = list(cals); rng.shuffle(order)
            for m in rng.sample(range(1, 14), 4):
                for cal in order:
                    if cal.min_year <= y <= cal.max_year and m <= cal.get_months_in_year(y):
                        _guard(ctx, {"kind": "ym", "cal": cal.id, "y": y, "m": m})
        ctx.sample({"kind": "ym-cross", "calendars": len(cals)})
    else:
        lo, hi = gen.INST_MIN_NS, gen.INST_MAX_NS
        for n in range(shard["n"]):
            def pick():
                r = rng.random()
                if r < 0.15: return None
                if r < 0.25: return rng.choice([lo, hi, lo + 1, hi - 1])
                if r < 0.5: return gen.rand_mag(rng, lo, hi)
                return rng.randint(lo, hi)
            a, b = pick(), pick()
            if a is not None and rng.random() < 0.3: b = min(hi, max(lo, a + rng.choice([0, 1, -1, 100, gen.DAY_NS])))
            if a is not None and b is not None and rng.random() < 0.8 and b < a: a, b = b, a
            mode = n % 8
            if mode == 0: c, d = a, b
            elif mode == 1: c, d = b, pick()
            elif mode == 2: c, d = pick(), a
            elif mode == 3 and b is not None: c, d = min(hi, b + 1), None
            else: c, d = pick(), pick()
            if c is not None and d is not None and d < c and rng.random() < 0.9: c, d = d, c
            case = {"kind": "interval", "a": a, "b": b, "c": c, "d": d}
            _guard(ctx, case)
            if n < 2: ctx.sample(case, cap=2)


def replay(ctx, case):
    _guard(ctx, case)
