"""C19 — clocks follow their simple model under any sequence of operations (DESIGN §3 C19, Appendix A.5)."""
from __future__ import annotations

import sys
import threading
import time

LEVEL = "exploration"
RULE = ("sequential: seeded operation sequences (read, advance, advance_<unit> x7, reset, set/get auto_advance) with signed amounts incl. range overflow, against the "
        "(now, auto) model; completion: every operation runs in a helper thread under a structural deadlock watchdog; concurrent: many short histories of "
        "2-16 threads with auto_advance = 1 ns and distinct power-of-two advances so that every read decodes to (reads before, advances before) -> "
        "linearizability, no duplicate reads, conservation; sys.monitoring yield injection inside FakeClock; ZonedClock views and SystemClock bracketing; "
        "distinct = distinct history/interleaving signatures + (operation, amount class)")
ASSUMPTIONS = ["CPython threads: interleavings only at bytecode boundaries (what yield injection perturbs)", "sequential model: read -> now, now += auto; advance(d) -> now += d",
               "time.time_ns() brackets for SystemClock (logical bracket, no deadline)"]
MIN_NT = {"quick": 100, "thorough": 1000}
REQUIRED = {"any": ["sequential_ops", "completion_checks", "concurrent_histories", "reads_decoded", "zoned_views", "system_clock_brackets"]}

NS = 10**9
DAY = 86400 * NS
UNITS = {"nanoseconds": 1, "ticks": 100, "milliseconds": 10**6, "seconds": 10**9, "minutes": 60 * 10**9, "hours": 3600 * 10**9, "days": DAY}
B = 1 << 20


def shards(tier, seed):
    q = tier == "quick"
    out = [{"name": f"sequential:{i}", "part": "seq", "n": 250 if q else 4000} for i in range(2 if q else 8)]
    out += [{"name": f"concurrent:{i}", "part": "conc", "n": 25 if q else 300, "inject": i % 2 == 1 or not q} for i in range(6 if q else 16)]
    out += [{"name": "views", "part": "views", "n": 300 if q else 5000}]
    return out


class Hung(Exception):
    pass


class Worker:
    """A long-lived thread that executes submitted callables one at a time (operations of one history alternate between two of
    these, so that state left behind by one thread - e.g. a lock that was never released - is met by another thread)."""

    def __init__(self):
        import queue
        self.q = queue.Queue()
        self.t = threading.Thread(target=self._loop, daemon=True)
        self.t.start()

    def _loop(self):
        while True:
            item = self.q.get()
            if item is None:
                return
            fn, box, done = item
            try:
                box["r"] = fn()
            except BaseException as e:  # noqa: BLE001
                box["e"] = e
            done.set()

    def stop(self):
        self.q.put(None)


_workers = []
_turn = [0]


def call_completing(ctx, fn, what, case, bound_s=3.0, hard_s=60.0):
    """Run fn() on one of two long-lived worker threads (alternating). If it has not returned after bound_s, decide
    structurally from that thread's stack: blocked inside FakeClock on a lock acquisition while no other thread is using
    the clock => the operation can never complete (violation). Anything else: wait up to hard_s, then inconclusive."""
    while len(_workers) < 2:
        _workers.append(Worker())
    _turn[0] ^= 1
    w = _workers[_turn[0]]
    box = {}; done = threading.Event()
    w.q.put((fn, box, done))
    ctx.counters["completion_checks"] += 1
    if not done.wait(bound_s):
        fr = sys._current_frames().get(w.t.ident)
        stack = []
        while fr is not None:
            stack.append((fr.f_code.co_filename, fr.f_code.co_name, fr.f_lineno)); fr = fr.f_back
        inside = [s for s in stack if s[0].replace("\\", "/").endswith("testing/_fake_clock.py")]
        _workers[_turn[0]] = Worker()        # the blocked thread is abandoned (daemon)
        if inside and stack[0] == inside[0]:
            import linecache
            line = linecache.getline(inside[0][0], inside[0][2]).strip()
            outer = [s[1] for s in inside]
            ctx.V(f"C19:operation-does-not-complete:{outer[-1]}", f"{what} did not return: the calling thread is blocked in FakeClock.{inside[0][1]} at '{line}' "
                  f"(call chain {' -> '.join(reversed(outer))}) while no other thread is using the clock: it can never complete", case, [list(s) for s in inside[:4]])
            raise Hung()
        if not done.wait(hard_s):
            ctx.inconc(f"{what} still running after {hard_s}s outside FakeClock: {stack[:3]}")
            raise Hung()
    if "e" in box:
        raise box["e"]
    return box.get("r")


def run_seq(ctx, n):
    from pyoda_time import Duration
    from pyoda_time.testing import FakeClock
    from vf import gen
    rng = ctx.rng
    ins, ns_of = gen.ns_inst, gen.inst_ns
    IMIN, IMAX = gen.INST_MIN_NS, gen.INST_MAX_NS
    dead = set()
    for h in range(n):
        if ctx.counters.get("hangs", 0) >= 4:
            ctx.note("sequential shard stopped early after four non-completing operations (each costs a watchdog wait)"); break
        now = rng.choice([rng.randint(-10**18, 10**18), IMAX - rng.randint(0, 10**12), IMIN + rng.randint(0, 10**12), 0])
        auto = rng.choice([0, 1, -1, 10**9, rng.randint(-10**12, 10**12)])
        c = FakeClock(ins(now), Duration.from_nanoseconds(auto))
        trace = [["init", now, auto]]
        if h % 20 == 0:
            c = FakeClock.from_utc(2000, 1, 1, 0, 0, 0) if auto == 0 else c
            if auto == 0: now = 946684800 * NS; trace = [["from_utc", now, 0]]
        for step in range(40):
            op = rng.choice(["read", "read", "adv", "advu", "advu", "reset", "auto", "getauto"])
            case = {"kind": "seq", "trace": trace[-12:], "op": op}
            ctx.ev(); ctx.counters["sequential_ops"] += 1
            try:
                if op == "read":
                    exp_after = now + auto
                    if not IMIN <= exp_after <= IMAX:
                        # the auto-advance would leave the range: the read is refused, the clock stays where it is, and everything after it still completes
                        try:
                            r = call_completing(ctx, c.get_current_instant, "get_current_instant (auto-advance leaves the range)", case)
                            trace.append(["read-overflow-returned", ns_of(r)])
                            ctx.V("C19:read-past-range-returned", f"a read whose auto-advance ({auto}) takes the clock from {now} out of the Instant range returned {ns_of(r)} instead of raising", case, ns_of(r), now)
                            break
                        except Hung:
                            raise
                        except (OverflowError, ValueError) as e:
                            ctx.exc(e); trace.append(["read-overflow-raised"]); ctx.key(("read-overflow", (auto > 0) - (auto < 0)))
                        continue
                    r = ns_of(call_completing(ctx, c.get_current_instant, "get_current_instant", case))
                    trace.append(["read", r])
                    if r != now:
                        ctx.V("C19:sequential-read", f"read returned {r}; the model (current value, auto-advance applied after each read) says {now}", case, r, now)
                        now = r
                    now += auto
                    ctx.key(("read", (auto > 0) - (auto < 0)))
                elif op in ("adv", "advu"):
                    if op == "adv":
                        d = rng.choice([rng.randint(-10**15, 10**15), 0, 1, -1, IMAX - now, IMIN - now, IMAX - now + 1, IMIN - now - 1, gen.rand_mag(rng, -10**20, 10**20)])
                        name = "advance"; fn = (lambda d=d: c.advance(Duration.from_nanoseconds(d)))
                        if not gen.DUR_MIN_NS <= d <= gen.DUR_MAX_NS: continue
                    else:
                        name = rng.choice(list(UNITS)); u = UNITS[name]
                        k = rng.choice([rng.randint(-1000, 1000), 0, 1, -1, (IMAX - now) // u, (IMAX - now) // u + 1, (IMIN - now) // u - 1])
                        if u % 8 == 0 and rng.random() < 0.25:
                            k = rng.choice([0.5, -0.5, 1.25, 2.0, -3.75, 0.125])          # the helpers take what Duration.from_<unit> takes: exact eighths here
                        d = int(k * u)
                        if not gen.DUR_MIN_NS <= d <= gen.DUR_MAX_NS: continue
                        name = "advance_" + name; fn = (lambda name=name, k=k: getattr(c, name)(k))
                        if name in dead: continue
                    inr = IMIN <= now + d <= IMAX
                    trace.append([name, d]); ctx.key((name, (d > 0) - (d < 0), inr))
                    try:
                        call_completing(ctx, fn, name, case)
                    except Hung:
                        dead.add(name); ctx.counters["hangs"] += 1; break
                    except (ValueError, OverflowError) as e:
                        ctx.exc(e)
                        if inr:
                            ctx.V(f"C19:{name}-raised-in-range", f"{name}({d} ns) raised {e!r} although the result {now + d} is a valid instant", case, repr(e))
                        # must leave the clock unchanged
                        continue
                    if not inr:
                        ctx.V(f"C19:{name}-out-of-range-accepted", f"{name}({d} ns) from {now} returned although the result is outside the Instant range", case)
                        break
                    now += d
                elif op == "reset":
                    now = rng.randint(-10**18, 10**18); trace.append(["reset", now])
                    call_completing(ctx, lambda: c.reset(ins(now)), "reset", case)
                elif op == "auto":
                    auto = rng.choice([0, 1, -1, rng.randint(-10**9, 10**9)]); trace.append(["auto", auto])
                    def setauto(a=auto):
                        c.auto_advance = Duration.from_nanoseconds(a)
                    call_completing(ctx, setauto, "auto_advance=", case)
                else:
                    got = call_completing(ctx, lambda: c.auto_advance, "auto_advance", case).to_nanoseconds()
                    if got != auto:
                        ctx.V("C19:auto_advance-getter", f"auto_advance = {got}, model {auto}", case, got, auto)
            except Hung:
                ctx.counters["hangs"] += 1
                break
        else:
            # final state: one more read with zero auto-advance tells the current value
            try:
                c.auto_advance = Duration.zero
                fin = ns_of(c.get_current_instant())
                if fin != now:
                    ctx.V("C19:sequential-final-state", f"final clock value {fin}; model {now}", {"kind": "seq", "trace": trace[-12:]}, fin, now)
            except Exception as e:  # noqa: BLE001
                ctx.exc(e)
        if h < 1:
            ctx.sample({"kind": "seq", "trace": trace[:8]})


def check_history(hist, final, n_threads):
    """Offline checker (Appendix A.5). hist entries: ('read', call, ret, value) | ('adv', call, ret, bit). Returns None or a reason."""
    reads = [h for h in hist if h[0] == "read"]; advs = [h for h in hist if h[0] == "adv"]
    vals = [h[3] for h in reads]
    if len(set(vals)) != len(vals):
        return "duplicate-read"
    dec = sorted((v % B, v // B, t0, t1) for _, t0, t1, v in reads)
    if [d[0] for d in dec] != list(range(len(dec))):
        return "read-count-not-a-chain"
    allbits = 0
    for h in advs:
        allbits |= 1 << h[3]
    for a, b in zip(dec, dec[1:]):
        if a[1] & ~b[1]:
            return "advance-set-not-monotone"
    for d in dec:
        if d[1] & ~allbits:
            return "read-contains-unknown-advance"
    # real-time order
    by_call = sorted(dec, key=lambda d: d[2])
    # read/read: if A returned before B was called then A's count < B's count
    max_ret_count = []
    ends = sorted(dec, key=lambda d: d[3])
    import bisect
    end_times = [d[3] for d in ends]
    pref = []; m = -1
    for d in ends:
        m = max(m, d[0]); pref.append(m)
    for d in dec:
        k = bisect.bisect_left(end_times, d[2])   # reads that returned strictly before d was called
        if k > 0 and pref[k - 1] > d[0]:
            return "realtime-read-order"
    for _, t0, t1, bit in advs:
        for d in dec:
            has = bool(d[1] >> bit & 1)
            if t1 < d[2] and not has:
                return "advance-lost"
            if d[3] < t0 and has:
                return "advance-from-the-future"
    if final != len(reads) + sum(B << h[3] for h in advs):
        return "conservation"
    return None


def trial(ctx, seed, T, ops, inject):
    import random

    from pyoda_time import Duration
    from pyoda_time.testing import FakeClock
    from vf import gen
    ins, ns_of = gen.ns_inst, gen.inst_ns
    c = FakeClock(ins(0), Duration.from_nanoseconds(1))
    hist = []; hl = threading.Lock(); bar = threading.Barrier(T)
    bits = iter(range(40)); bl = threading.Lock()
    errors = []
    inj = None
    if inject:
        from pyoda_time.testing import _fake_clock
        from vf.monitors.yieldinj import YieldInjector
        inj = YieldInjector([_fake_clock], seed, p=0.5)

    def w(k):
        rr = random.Random(seed * 100 + k)
        try:
            bar.wait(30)
            for _ in range(ops):
                if rr.random() < 0.88:
                    t0 = time.monotonic_ns(); v = ns_of(c.get_current_instant()); t1 = time.monotonic_ns()
                    with hl: hist.append(("read", t0, t1, v))
                else:
                    with bl: bit = next(bits, None)
                    if bit is None: continue
                    amt = B << bit
                    t0 = time.monotonic_ns()
                    c.advance(Duration.from_nanoseconds(amt))
                    t1 = time.monotonic_ns()
                    with hl: hist.append(("adv", t0, t1, bit))
        except BaseException as e:  # noqa: BLE001
            errors.append(repr(e))
    old = sys.getswitchinterval()
    sys.setswitchinterval(1e-6)
    if inj: inj.start()
    ts = [threading.Thread(target=w, args=(k,), daemon=True) for k in range(T)]
    try:
        for t in ts: t.start()
        for t in ts:
            t.join(120)
            if t.is_alive():
                return "HANG", None, inj
    finally:
        if inj: inj.stop()
        sys.setswitchinterval(old)
    if errors:
        return "thread-raised:" + errors[0][:80], hist, inj
    final = ns_of(c.get_current_instant())
    return check_history(hist, final, T), hist, inj


def run_conc(ctx, n, inject):
    sigs = set()
    for i in range(n):
        seed = ctx.rng.randrange(10**9)
        T = ctx.rng.choice([2, 4, 8, 16])
        res, hist, inj = trial(ctx, seed, T, 400 // T * 2 if T > 4 else 100, inject)
        ctx.ev(); ctx.counters["concurrent_histories"] += 1
        if hist:
            ctx.counters["reads_decoded"] += sum(1 for h in hist if h[0] == "read")
            # history signature: order of completion of operations by thread-agnostic kind/value
            import hashlib
            hs = hashlib.blake2b(repr(sorted((h[2], h[0], h[3]) for h in hist)[:200]).encode(), digest_size=8).hexdigest()
            sigs.add(hs); ctx.key(("history", hs))
        if inj:
            st = inj.stats()
            ctx.counters["yield_injections"] += st["injections"]; ctx.counters["yield_callbacks"] += st["callbacks"]
            ctx.counters["code_objects_fired_max"] = max(ctx.counters.get("code_objects_fired_max", 0), st["fired"])
            ctx.key(("interleaving", st["signature"]))
        if res == "HANG":
            ctx.V("C19:concurrent-operation-does-not-complete", f"a thread did not finish a {T}-thread history within the watchdog (seed {seed})", {"kind": "conc", "seed": seed, "threads": T})
        elif res is not None:
            ctx.V(f"C19:concurrent-{res}", f"{T}-thread history (seed {seed}, {len(hist or [])} operations) is not explained by the sequential clock model: {res}",
                  {"kind": "conc", "seed": seed, "threads": T, "inject": inject, "history": [list(h) for h in (hist or [])[:400]]})
        if i == 0 and hist:
            ctx.sample({"kind": "conc", "threads": T, "operations": len(hist), "first": [list(h) for h in hist[:3]], "injected": bool(inj)})
    ctx.counters["distinct_histories"] += len(sigs)


def run_views(ctx, n):
    from pyoda_time import DateTimeZoneProviders, Duration, SystemClock, ZonedClock
    from pyoda_time.testing import FakeClock
    from vf import gen
    rng = ctx.rng
    tz = DateTimeZoneProviders.tzdb; ids = list(tz.ids)
    cals = gen.calendars()
    from pyoda_time import DateTimeZone, Offset
    for it in range(n):
        z = tz[rng.choice(ids)]; cal = rng.choice(cals); lo, hi = gen.cal_range(cal.id)
        if it % 4 == 1:      # the fixed zones: the UTC singleton, the provider's "UTC", arbitrary fixed offsets
            z = rng.choice([DateTimeZone.utc, tz["UTC"], DateTimeZone.for_offset(Offset.from_seconds(rng.choice([0, 3600, -16200, rng.randint(-64800, 64800)])))])
        nsv = rng.randint(max(gen.INST_MIN_NS, (lo + 2) * DAY), min(gen.INST_MAX_NS, (hi - 2) * DAY))
        fc = FakeClock(gen.ns_inst(nsv), Duration.zero)
        zc = ZonedClock(fc, z, cal) if it % 3 else fc.in_zone(z, cal)
        if it % 16 == 5:
            z = DateTimeZone.utc; cal = gen.ISO; zc = fc.in_utc()
        i = gen.ns_inst(nsv); exp = i.in_zone(z, cal)
        case = {"kind": "view", "zone": z.id, "cal": cal.id, "ns": nsv}
        ctx.ev(); ctx.counters["zoned_views"] += 1; ctx.key(("view", cal.id))
        try:
            ok = (zc.get_current_instant() == i and zc.get_current_zoned_date_time() == exp and zc.get_current_local_date_time() == exp.local_date_time
                  and zc.get_current_offset_date_time() == exp.to_offset_date_time() and zc.get_current_date() == exp.date and zc.get_curent_time_of_day() == exp.time_of_day
                  and zc.clock is fc and zc.zone is z and zc.calendar is cal)
        except Exception as e:  # noqa: BLE001
            ctx.exc(e); ctx.V(f"C19:zoned-clock-raised:{type(e).__name__}", f"ZonedClock getter raised {e!r}", case, repr(e)); continue
        if not ok:
            ctx.V("C19:zoned-clock-view", f"ZonedClock({z.id}, {cal.id}) over a FakeClock at {nsv} does not report that instant rendered in its zone and calendar", case)
    # several reads on ONE ZonedClock while the wrapped clock moves across a zone transition (exactly onto it, one ns either side)
    from vf import zonewalk
    for _ in range(max(8, n // 25)):
        z = tz[rng.choice(["Europe/London", "America/New_York", "Pacific/Apia", "Australia/Lord_Howe", "Europe/Dublin", rng.choice(ids)])]
        log, _p = zonewalk.walk(z, -2 * 10**18, 4 * 10**18)
        trans = [r[0] for r in log[1:] if r[0] is not None]
        if not trans:
            continue
        t = rng.choice(trans); cal = rng.choice([gen.ISO, rng.choice(cals)]); lo, hi = gen.cal_range(cal.id)
        if not (lo + 3) * DAY < t < (hi - 3) * DAY:
            cal = gen.ISO
        fc = FakeClock(gen.ns_inst(t - 3600 * NS), Duration.zero)
        zc = ZonedClock(fc, z, cal)
        cur = t - 3600 * NS
        for step in (0, 3600 * NS - 1, 1, 1, 3600 * NS, -3600 * NS - 1, 1, 30 * 60 * NS):
            cur += step
            if step:
                fc.advance(Duration.from_nanoseconds(step))
            i = gen.ns_inst(cur); exp = i.in_zone(z, cal)
            case = {"kind": "view", "zone": z.id, "cal": cal.id, "ns": cur, "transition": t}
            ctx.ev(); ctx.counters["zoned_views"] += 1; ctx.key(("view-seq", cur - t if abs(cur - t) <= 1 else (cur > t)))
            try:
                got = (zc.get_current_instant(), zc.get_current_zoned_date_time(), zc.get_current_local_date_time(), zc.get_current_offset_date_time(), zc.get_current_date(), zc.get_curent_time_of_day())
            except Exception as e:  # noqa: BLE001
                ctx.exc(e); ctx.V(f"C19:zoned-clock-raised:{type(e).__name__}", f"ZonedClock getter raised {e!r}", case, repr(e)); break
            want = (i, exp, exp.local_date_time, exp.to_offset_date_time(), exp.date, exp.time_of_day)
            if got != want:
                ctx.V("C19:zoned-clock-view", f"ZonedClock({z.id}, {cal.id}) read at {cur} ({cur - t:+d} ns from a transition, after earlier reads on the same object) reports offset "
                      f"{got[3].offset.seconds} s, local {got[2]!r}; the instant rendered in the zone has offset {want[3].offset.seconds} s, local {want[2]!r}", case)
    # an auto-advancing wrapped clock: every ZonedClock getter is exactly ONE read of the wrapped clock, rendered in zone and calendar
    for _ in range(max(10, n // 15)):
        z = tz[rng.choice(["Europe/London", "America/New_York", "Australia/Lord_Howe", rng.choice(ids)])]
        log, _p = zonewalk.walk(z, -10**18, 4 * 10**18)
        trans = [r[0] for r in log[1:] if r[0] is not None]
        step = rng.choice([1, 2, 30 * 60 * NS, 3600 * NS, 10**9])
        t0 = (rng.choice(trans) - rng.randint(0, 4) * step) if trans and rng.random() < 0.7 else rng.randint(-10**18, 4 * 10**18)
        cal = rng.choice([gen.ISO, gen.ISO, rng.choice(cals)]); lo, hi = gen.cal_range(cal.id)
        if not (lo + 3) * DAY < t0 < (hi - 3) * DAY:
            cal = gen.ISO
        fc = FakeClock(gen.ns_inst(t0), Duration.from_nanoseconds(step)); zc = ZonedClock(fc, z, cal)
        getters = [("get_current_instant", lambda e: e.to_instant()), ("get_current_zoned_date_time", lambda e: e), ("get_current_local_date_time", lambda e: e.local_date_time),
                   ("get_current_offset_date_time", lambda e: e.to_offset_date_time()), ("get_current_date", lambda e: e.date), ("get_curent_time_of_day", lambda e: e.time_of_day)]
        k = 0
        for _r in range(10):
            name, proj = rng.choice(getters)
            cur = t0 + k * step; exp = gen.ns_inst(cur).in_zone(z, cal)
            case = {"kind": "view", "zone": z.id, "cal": cal.id, "ns": cur, "auto_advance": step, "getter": name}
            ctx.ev(); ctx.counters["zoned_views"] += 1; ctx.key(("view-auto", name, step))
            try:
                got = getattr(zc, name)()
            except Exception as e:  # noqa: BLE001
                ctx.exc(e); ctx.V(f"C19:zoned-clock-raised:{type(e).__name__}", f"ZonedClock.{name} raised {e!r}", case, repr(e)); break
            k += 1
            if got != proj(exp):
                ctx.V(f"C19:zoned-clock-auto-advance:{name}", f"ZonedClock({z.id}).{name}() over a FakeClock auto-advancing by {step} ns returned {got!r}; the wrapped clock's reading #{k} ({cur}) rendered in the zone is {proj(exp)!r}", case)
                break
        fin = gen.inst_ns(fc.get_current_instant())
        if fin != t0 + k * step:
            ctx.V("C19:zoned-clock-reads-per-call", f"after {k} ZonedClock getter calls the wrapped clock (auto-advance {step} ns) stands at {fin}; one read per call gives {t0 + k * step}", {"kind": "view", "zone": z.id, "auto_advance": step}, fin, t0 + k * step)
    # re-zoning a ZonedClock: the result renders in the zone OBJECT it was given (another object with the same id is another zone)
    from pyoda_time.testing.time_zones import SingleTransitionDateTimeZone
    from pyoda_time import Instant as _I
    for it in range(max(10, n // 20)):
        nsv = rng.randint(-10**18, 4 * 10**18)
        fc = FakeClock(gen.ns_inst(nsv), Duration.zero)
        tr = gen.ns_inst(nsv + rng.randint(-10**15, 10**15))
        same_a = SingleTransitionDateTimeZone(tr, rng.choice([1, 2, -3]), rng.choice([3, 5, -1]))
        same_b = SingleTransitionDateTimeZone(gen.ns_inst(nsv + rng.randint(-10**15, 10**15)), rng.choice([-5, 7, 0]), rng.choice([-4, 9, 11]))
        z1 = rng.choice([tz[rng.choice(ids)], same_a, DateTimeZone.utc]); cal = rng.choice([gen.ISO, gen.ISO, rng.choice(cals)])
        lo, hi = gen.cal_range(cal.id)
        if not (lo + 3) * DAY < nsv < (hi - 3) * DAY: cal = gen.ISO
        zc1 = fc.in_zone(z1, cal)
        for z2, c2 in ((same_b, cal), (same_a, cal), (tz[rng.choice(ids)], cal), (z1, gen.ISO), (DateTimeZone.for_offset(Offset.from_hours(rng.randint(-12, 12))), cal)):
            case = {"kind": "view", "zone": z2.id, "cal": c2.id, "ns": nsv, "rezoned_from": z1.id}
            ctx.ev(); ctx.counters["zoned_views"] += 1; ctx.key(("rezone", z1.id == z2.id, z1 is z2, c2 is cal))
            try:
                zc2 = zc1.in_zone(z2, c2)
                got = zc2.get_current_zoned_date_time(); want = gen.ns_inst(nsv).in_zone(z2, c2)
                if zc2.zone is not z2 or zc2.calendar is not c2 or got != want or got.offset != z2.get_utc_offset(gen.ns_inst(nsv)) or zc2.get_current_local_date_time() != want.local_date_time:
                    ctx.V("C19:zoned-clock-rezoned", f"ZonedClock({z1.id}).in_zone(<zone object with id {z2.id!r}>, {c2.id}) reports {got.local_date_time!r} {got.offset.seconds} s; the instant rendered in the zone it was given is {want.local_date_time!r} {want.offset.seconds} s", case)
            except Exception as e:  # noqa: BLE001
                ctx.exc(e); ctx.V(f"C19:zoned-clock-raised:{type(e).__name__}", f"re-zoning raised {e!r}", case, repr(e))
    # one ZonedClock shared by threads while the wrapped clock is being advanced: every result is the rendering of the instant THAT call read
    import sys
    import threading
    from pyoda_time import IClock

    class RecordingClock(IClock):
        def __init__(self, inner): self.inner = inner; self.tl = threading.local()
        def get_current_instant(self):
            v = self.inner.get_current_instant(); self.tl.last = v; return v
    old_si = sys.getswitchinterval()
    try:
        sys.setswitchinterval(1e-6)
        for trial_i in range(3 if ctx.tier == "quick" else 40):
            z = tz[rng.choice(["Europe/London", "America/New_York", "Asia/Kolkata", rng.choice(ids)])]
            fc = FakeClock(gen.ns_inst(rng.randint(0, 2 * 10**18)), Duration.zero); rc = RecordingClock(fc); zc = ZonedClock(rc, z, gen.ISO)
            bad = []; stop = threading.Event(); reads = [0]

            def reader():
                for _ in range(150):
                    r = zc.get_current_zoned_date_time()
                    mine = rc.tl.last
                    reads[0] += 1
                    if r.to_instant() != mine or r.offset != z.get_utc_offset(mine):
                        bad.append((gen.inst_ns(r.to_instant()), gen.inst_ns(mine))); return

            def advancer():
                while not stop.is_set():
                    fc.advance_seconds(1801)
            ths = [threading.Thread(target=reader) for _ in range(6)]; adv = threading.Thread(target=advancer)
            adv.start(); [t.start() for t in ths]; [t.join(300) for t in ths]; stop.set(); adv.join(60)
            ctx.ev(); ctx.counters["zoned_clock_shared_reads"] += reads[0]; ctx.key(("zoned-shared", trial_i))
            if bad:
                ctx.V("C19:zoned-clock-shared-stale", f"a ZonedClock({z.id}) shared by 6 reading threads while the wrapped clock is advanced returned the rendering of instant {bad[0][0]} to a call whose own read of the wrapped clock gave {bad[0][1]}",
                      {"kind": "view", "zone": z.id, "shared": True}, bad[0][0], bad[0][1])
                break
    finally:
        sys.setswitchinterval(old_si)
    sc = SystemClock.instance
    # the operating-system time under our control: whatever time.time_ns() says (also before 1970, also off the 100 ns tick grid) is reported exactly
    real_time_ns = time.time_ns
    try:
        for v in [0, 1, -1, 99, 100, 101, -99, -100, -101, -1234567891, 10**18 + 55, -(10**18) - 55, 2**62 + 1] + [rng.randint(-4 * 10**18, 8 * 10**18) for _ in range(300)]:
            time.time_ns = lambda v=v: v
            try:
                got = gen.inst_ns(sc.get_current_instant())
            except Exception as e:  # noqa: BLE001
                ctx.exc(e); got = repr(e)
            finally:
                time.time_ns = real_time_ns
            ctx.ev(); ctx.counters["system_clock_controlled"] += 1; ctx.key(("system-clock-controlled", (v > 0) - (v < 0), v % 100 == 0))
            if got != v:
                ctx.V("C19:system-clock-controlled", f"with the operating-system time at {v} ns since the Unix epoch SystemClock reported {got}", {"kind": "sys", "a": v, "v": got, "b": v}, got, v)
    finally:
        time.time_ns = real_time_ns
    for _ in range(2000 if ctx.tier == "quick" else 20000):
        a = time.time_ns(); v = gen.inst_ns(sc.get_current_instant()); b = time.time_ns()
        ctx.counters["system_clock_brackets"] += 1
        if not (a - 1000 <= v <= b + 1000):   # time.time_ns() resolution slack of 1 microsecond
            ctx.V("C19:system-clock", f"SystemClock reported {v}; bracketed by time.time_ns() {a}..{b}", {"kind": "sys", "a": a, "v": v, "b": b}, v, (a, b))
    ctx.ev(); ctx.key(("system-clock",)); ctx.key(("system-clock", 2))
    ctx.sample({"kind": "view", "n": n})


def run(ctx, shard):
    for k in REQUIRED["any"] + ["yield_injections", "yield_callbacks", "distinct_histories"]:
        ctx.counters.setdefault(k, 0)
    if shard["part"] == "seq": run_seq(ctx, shard["n"])
    elif shard["part"] == "conc": run_conc(ctx, shard["n"], shard["inject"])
    else: run_views(ctx, shard["n"])


def replay(ctx, case):
    ctx.distinct(2)
    for k in REQUIRED["any"] + ["yield_injections", "yield_callbacks", "distinct_histories"]:
        ctx.counters.setdefault(k, 0)
    if case.get("kind") == "conc":
        # first re-judge the recorded history (deterministic), then re-execute the trial seed repeatedly
        hist = [tuple(h) for h in case.get("history", [])]
        if hist:
            reads = [h for h in hist if h[0] == "read"]
            ctx.note(f"recorded history re-judged: {check_history(hist, len(reads) + sum(B << h[3] for h in hist if h[0] == 'adv'), case['threads'])} (conservation not re-judgeable from a truncated record)")
        again = 0
        for _ in range(20):
            res, _, _ = trial(ctx, case["seed"], case["threads"], 100, case.get("inject", True))
            ctx.counters["concurrent_histories"] += 1
            if res is not None:
                again += 1
                ctx.V(f"C19:concurrent-{res}", f"re-execution of seed {case['seed']}: {res}", case)
        ctx.note(f"violation recurred in {again}/20 re-executions")
    elif "part" in ctx.shard:
        run(ctx, ctx.shard)
    elif case.get("kind") == "view":
        run_views(ctx, 50)
    else:
        run_seq(ctx, 100)
