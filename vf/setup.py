from __future__ import annotations

import subprocess
import sys

from . import env


def main() -> int:
    icu = env.ensure_icu()
    deps = env.ensure_deps()
    print(f"[setup] ICU dir: {icu or 'NOT FOUND (invariant-culture only; culture-quantified parts become inconclusive)'}")
    print(f"[setup] icontract: {'installed in .deps' if deps else 'unavailable -> built-in shim'}")
    r = subprocess.run([env.PY, "-c", "import pyoda_time, sys; print('[setup] pyoda_time from', pyoda_time.__file__)"],
                       env=env.worker_env(), capture_output=True, text=True)
    sys.stdout.write(r.stdout)
    if r.returncode != 0:
        sys.stdout.write(r.stderr[-2000:])
        print("[setup] import pyoda_time FAILED")
        return 1
    return 0


if __name__ == "__main__":
    sys.exit(main())
