"""Pattern / value generators for the seven pattern types (DESIGN §3 C07 generator rules). Runs inside workers.

Patterns are BUILT from field lists so that the harness knows exactly which components a pattern carries and can
choose values the pattern can represent.
"""
from __future__ import annotations

DAY = 86400 * 10**9
SEPS = ["/", ":", "-", " ", "'x'", "'y z'", "\\T", "' at '", "_", '"q"', "'é'"]
SAFE_SEPS = ["-", " ", "'x'", "'y z'", "\\T", "' at '", "_", '"q"']   # never followed/preceded ambiguously by digits or culture separators


def cultures(rng, n, all_first=False):
    from pyoda_time._compatibility._culture_info import CultureInfo
    from pyoda_time._compatibility._culture_types import CultureTypes
    allc = list(CultureInfo.get_cultures(CultureTypes.ALL_CULTURES))
    allc = [c for c in allc if c.name]
    out = [CultureInfo.invariant_culture]
    if n is None or n >= len(allc):
        return out + allc
    return out + rng.sample(allc, n)


def fmt_info(culture):
    from pyoda_time.globalization._pyoda_format_info import _PyodaFormatInfo
    return _PyodaFormatInfo.get_instance(culture)


def names_ok(fi, kind):
    try:
        if kind == "MMM": L = list(fi.short_month_names[1:13]) + list(fi.short_month_genitive_names[1:13])
        elif kind == "MMMM": L = list(fi.long_month_names[1:13]) + list(fi.long_month_genitive_names[1:13])
        elif kind == "ddd": L = list(fi.short_day_names[1:8])
        else: L = list(fi.long_day_names[1:8])
    except Exception:  # noqa: BLE001
        return False
    n = 12 if kind[0] == "M" else 7
    base = [x.casefold() for x in L[:n]]
    if len(set(base)) != n or not all(base):
        return False
    if any(ch.isdigit() for x in L for ch in x):
        return False
    # no name may be a prefix of another (longest-match ambiguity) and genitive/nominative must map to the same index
    for i, a in enumerate(base):
        for j, b in enumerate(base):
            if i != j and b.startswith(a):
                return False
    if kind[0] == "M":
        gen = [x.casefold() for x in L[12:24]]
        for i, g in enumerate(gen):
            for j, b in enumerate(base):
                if i != j and g and (g.startswith(b) or b.startswith(g)):
                    return False
    return True


def ampm_ok(fi):
    a, p = fi.am_designator, fi.pm_designator
    return bool(a) and bool(p) and a[0].casefold() != p[0].casefold() and not a.casefold().startswith(p.casefold()) and not p.casefold().startswith(a.casefold()) \
        and not any(ch.isdigit() for ch in a + p)


def seps_for(fi):
    """Culture-substituted forms of ':' and '/' (used to avoid fraction ambiguity rules)."""
    return fi.time_separator, fi.date_separator


NONLETTER_SEPS = ["-", " ", "_", "' - '", "'|'", "' '"]
TEXT_FIELDS = ("MMM", "MMMM", "ddd", "dddd", "g", "c", "tt", "t")


def lit(rng, safe=False):
    return rng.choice(SAFE_SEPS if safe else SEPS)


def lit_after(rng, prev_part, next_part=""):
    """Separator following `prev_part`: after a text field the literal must not begin with a letter (it could extend a name:
    'Sep' + 'T' matches 'Sept'), and around era/calendar fields only plain separators are used."""
    if prev_part.endswith(TEXT_FIELDS) or prev_part.endswith(">") and False:
        return rng.choice(NONLETTER_SEPS)
    if next_part in ("c",) or "g" in next_part:
        return rng.choice(SAFE_SEPS)
    return rng.choice(SEPS)


def rendered(sep, fi):
    ts, ds = seps_for(fi)
    if sep == ":": return ts
    if sep == "/": return ds
    if sep.startswith("'") or sep.startswith('"'): return sep[1:-1]
    if sep.startswith("\\"): return sep[1:]
    return sep


# ------------------------------------------------------------------ LocalTime
def gen_time(rng, fi):
    hour = rng.choice(["HH", "H", "hh", "h"])
    info = {"h12": hour[0] == "h", "ampm": False, "min": False, "sec": False, "frac": 0, "numeric_only": True, "padded": len(hour) == 2}
    parts = [hour]
    if rng.random() < 0.9:
        k = rng.choice(["m", "mm"]); parts.append(k); info["min"] = True; info["padded"] &= len(k) == 2
    if info["min"] and rng.random() < 0.8:
        k = rng.choice(["s", "ss"]); parts.append(k); info["sec"] = True; info["padded"] &= len(k) == 2
    frac = None
    if info["sec"] and rng.random() < 0.65:
        n = rng.randint(1, 9); kind = rng.choice(["f", "F", ".f", ".F", ";f", ";F"])
        frac = kind[:-1] + kind[-1] * n; info["frac"] = n; info["fkind"] = kind
        if "F" in kind: info["padded"] = False
    use_t = info["h12"] and ampm_ok(fi) and rng.random() < 0.8
    if rng.random() < 0.12:          # a redundant second hour field of the other kind (both must agree; the 24-hour one decides the value)
        other = rng.choice(["H", "HH"]) if info["h12"] else rng.choice(["h", "hh"])
        parts.append(other); info["both_hours"] = True; info["padded"] &= len(other) == 2
    out = parts[0]
    prev_sep = None
    for p in parts[1:]:
        s = lit(rng); out += s + p; prev_sep = s
    if frac:
        if frac[0] in ".;":
            out += frac
        else:
            s = lit(rng)
            # a bare F fraction must not follow a literal ending in '.' after culture substitution
            if frac[0] == "F" and rendered(s, fi).endswith((".", ",")):
                s = "'x'"
            out += s + frac
    tail_needed = frac is not None and frac[0] in ".;"
    if use_t:
        s = lit(rng)
        if tail_needed and rendered(s, fi)[:1] in (".", ","):
            s = " "
        out += s + rng.choice(["tt", "t"]) if False else s + "tt"
        info["ampm"] = True; info["numeric_only"] = False
    if len(out) == 1:
        out = "%" + out
    return out, info


def rep_time(rng, info):
    from pyoda_time import LocalTime
    h = rng.choice([0, 11, 12, 13, 23, rng.randrange(24)])
    if info["h12"] and not info["ampm"] and not info.get("both_hours"):
        h = rng.randrange(12)
    m = rng.choice([0, 59, rng.randrange(60)]) if info["min"] else 0
    s = rng.choice([0, 59, rng.randrange(60)]) if info["sec"] else 0
    ns = 0
    if info["frac"]:
        ns = rng.choice([0, 1, 10**info["frac"] - 1, rng.randrange(10**info["frac"])]) * 10**(9 - info["frac"])
    return LocalTime.from_hour_minute_second_nanosecond(h, m, s, ns)


# ------------------------------------------------------------------ LocalDate
def gen_date(rng, fi, cal, allow_yy=True):
    single = len(list(cal.eras())) == 1
    yk = ["uuuu", "yyyy g"] + (["yy"] if allow_yy and cal.id == "ISO" else []) + (["yyyy"] if single else [])
    ykind = rng.choice(yk)
    mk = ["M", "MM"]
    if cal.get_months_in_year(cal.max_year) <= 12 and not cal.id.startswith("Hebrew") and cal.id != "Badi":
        if names_ok(fi, "MMM"): mk.append("MMM")
        if names_ok(fi, "MMMM"): mk.append("MMMM")
    mkind = rng.choice(mk)
    dkind = rng.choice(["d", "dd"])
    noday = rng.random() < 0.15          # month/year only: the day comes from the template value (1)
    parts = [ykind, mkind] if noday else [ykind, mkind, dkind]
    dk = [k for k in ("ddd", "dddd") if names_ok(fi, k)]
    text = mkind in ("MMM", "MMMM")
    if dk and rng.random() < 0.25:
        parts.append(rng.choice(dk)); text = True
    withc = rng.random() < 0.25
    if withc and ykind != "uuuu":   # the era specifier cannot share a pattern with the calendar specifier, and
        withc = False   # year-of-era without an era field takes the era from the template value, which a calendar read from the text need not have
    if withc: parts.append("c")
    rng.shuffle(parts)
    out = parts[0]
    for prev, p in zip(parts, parts[1:]):
        out += lit_after(rng, prev, p) + p
    era_text = "g" in ykind
    info_last = parts[-1]
    info = {"y": ykind, "c": withc, "numeric_only": not text and not withc and not era_text, "padded": ykind in ("uuuu", "yyyy") and mkind == "MM" and dkind == "dd" and not noday, "last": info_last, "noday": noday}
    return out, info


def rep_date(rng, cal, info):
    from pyoda_time import LocalDate
    if info["y"] == "yy":
        yr = rng.randint(1931, 2029)
    else:
        yr = rng.choice([cal.min_year, cal.max_year, cal.min_year + 1, rng.randint(cal.min_year, cal.max_year), rng.randint(cal.min_year, cal.max_year)])
        if info["y"] == "yyyy" and yr < 1: yr = 1 - yr if 1 - yr <= cal.max_year else 1
    m = rng.randint(1, cal.get_months_in_year(yr)); d = rng.choice([1, cal.get_days_in_month(yr, m), rng.randint(1, cal.get_days_in_month(yr, m))])
    if info.get("noday"):
        # the pattern has no day field: the parsed value takes the template value's day (ISO 2000-01-01 when the calendar is read from the text)
        d = 1 if info.get("c") else date_template(cal).day
        for _ in range(20):
            if d <= cal.get_days_in_month(yr, m):
                break
            m = rng.randint(1, cal.get_months_in_year(yr))
        else:
            d = min(d, cal.get_days_in_month(yr, m))
    return LocalDate(yr, m, d, cal)


def date_template(cal):
    from pyoda_time import LocalDate
    from vf import gen
    lo, hi = gen.cal_range(cal.id)
    if lo <= 10957 <= hi:
        return LocalDate(2000, 1, 1).with_calendar(cal)
    return LocalDate(cal.min_year + 1, 1, 1, cal)


# ------------------------------------------------------------------ Offset
def gen_offset(rng, fi):
    sign = rng.choice(["+", "-"])
    parts = [rng.choice(["H", "HH"])]
    gran = 3600
    if rng.random() < 0.8:
        parts.append(rng.choice(["m", "mm"])); gran = 60
        if rng.random() < 0.6:
            parts.append(rng.choice(["s", "ss"])); gran = 1
    z = rng.random() < 0.25
    out = ("Z" if z else "") + sign + parts[0] + "".join(rng.choice([":", "'h'", " ", "'.'"]) + p for p in parts[1:])
    return out, {"gran": gran, "sign": sign, "z": z, "numeric_only": True, "padded": all(len(p) == 2 for p in parts)}


def rep_offset(rng, info):
    from pyoda_time import Offset
    g = info["gran"]
    s = rng.choice([0, 64800, -64800, g, -g, rng.randint(-64800 // g, 64800 // g) * g])
    return Offset.from_seconds(s)


# ------------------------------------------------------------------ Duration
def gen_duration(rng, fi):
    sign = rng.choice(["-", "+", "-"])
    top = rng.choice(["D", "H", "M", "S"])
    chain = {"D": ["hh", "mm", "ss"], "H": ["mm", "ss"], "M": ["ss"], "S": []}[top]
    k = rng.randint(0, len(chain)); used = chain[:k]
    info = {"top": top, "used": used, "frac": 0, "numeric_only": True, "padded": False}
    out = sign + top * rng.choice([1, 1, 2])
    for p in used:
        out += rng.choice([":", "'h'", " ", "."]) + (p if rng.random() < 0.8 else p[0])
    finest = (used[-1][0] if used else top).lower()
    if finest == "s" and rng.random() < 0.7:
        n = rng.randint(1, 9); kind = rng.choice([".f", ".F", ";F", "'x'f"])
        out += kind[:-1] + kind[-1] * n; info["frac"] = n
    info["unit"] = {"d": DAY, "h": 3600 * 10**9, "m": 60 * 10**9, "s": 10**9}[finest]
    if info["frac"]:
        info["unit"] = 10**(9 - info["frac"])
    return out, info


def rep_duration(rng, info):
    from pyoda_time import Duration
    from vf import gen
    u = info["unit"]
    lo, hi = gen.DUR_MIN_NS // u + 1, gen.DUR_MAX_NS // u - 1
    n = rng.choice([0, 1, -1, rng.randint(-10**6, 10**6), rng.randint(lo, hi), rng.randint(-86400 * 400, 86400 * 400) * (10**9 // u if u <= 10**9 else 1)])
    n = max(lo, min(hi, n))
    return Duration.from_nanoseconds(n * u)


# ------------------------------------------------------------------ AnnualDate
def gen_annual(rng, fi):
    mk = ["M", "MM"] + (["MMM"] if names_ok(fi, "MMM") else []) + (["MMMM"] if names_ok(fi, "MMMM") else [])
    m = rng.choice(mk); d = rng.choice(["d", "dd"])
    parts = [m, d]; rng.shuffle(parts)
    return parts[0] + lit_after(rng, parts[0], parts[1]) + parts[1], {"numeric_only": not m.startswith("MMM"), "padded": m == "MM" and d == "dd"}


def rep_annual(rng, info):
    from pyoda_time import AnnualDate
    m = rng.randint(1, 12); d = rng.choice([1, 28, 29 if m == 2 else 30, rng.randint(1, 28)])
    return AnnualDate(m, d)


# ------------------------------------------------------------------ composite date-time / instant
def gen_datetime(rng, fi, cal, embedded=True):
    dp, dinfo = gen_date(rng, fi, cal, allow_yy=False)
    tp, tinfo = gen_time(rng, fi)
    mode = rng.randrange(4 if embedded else 2)
    sep = lit(rng, safe=True)
    if dinfo["last"].endswith(TEXT_FIELDS) or tinfo["ampm"]:
        sep = rng.choice(NONLETTER_SEPS)
    # the text following an optional-separator fraction must not begin with '.' or ',' after culture substitution
    if mode == 0: pt = dp + sep + tp
    elif mode == 1: pt = tp + sep + dp if not (tinfo["frac"] and not tinfo["ampm"] and rendered(sep, fi)[:1] in ".,") else dp + sep + tp
    elif mode == 2: pt = "ld<" + dp + ">" + sep + "lt<" + tp + ">"
    else: pt = "lt<" + tp + ">" + sep + "ld<" + dp + ">"
    info = {"d": dinfo, "t": tinfo, "numeric_only": dinfo["numeric_only"] and tinfo["numeric_only"], "padded": dinfo["padded"] and tinfo["padded"]}
    return pt, info


STANDARD = {
    "LocalTime": ["o", "O", "t", "T", "r"],
    "LocalDate": ["d", "D", "M", "R", "r"],
    "LocalDateTime": ["o", "O", "r", "R", "s", "S", "f", "F", "g", "G"],
    "Offset": ["g", "G", "i", "I", "l", "m", "s", "L", "M", "S"],
    "Duration": ["o", "j"],
    "AnnualDate": ["G"],
    "Instant": ["g"],
}


def pattern_class(tname):
    from pyoda_time import text as T
    return {"LocalTime": T.LocalTimePattern, "LocalDate": T.LocalDatePattern, "LocalDateTime": T.LocalDateTimePattern, "Offset": T.OffsetPattern,
            "Duration": T.DurationPattern, "AnnualDate": T.AnnualDatePattern, "Instant": T.InstantPattern}[tname]
