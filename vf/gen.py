"""Shared value generators and public-API adapters (run inside workers; imports pyoda_time)."""
from __future__ import annotations

import functools

from pyoda_time import (
    CalendarSystem,
    Duration,
    Instant,
    LocalDate,
    LocalDateTime,
    LocalTime,
    Offset,
    Period,
)

NS = 10**9
DAY_NS = 86400 * NS
UNIX_ORD = 719163  # date(1970,1,1).toordinal()
ISO = CalendarSystem.iso
_EPOCH = LocalDate(1970, 1, 1)

# Documented ranges (DESIGN C03): Instant -9998-01-01 .. 9999-12-31T23:59:59.999999999; Duration +/- 2^24 days
# are read from the public min/max values rather than assumed.


def _inst_ns(i: Instant) -> int:
    d = i - Instant.from_unix_time_ticks(0)
    return int(d.to_nanoseconds())


inst_ns = _inst_ns


def ns_inst(ns: int) -> Instant:
    return Instant.from_unix_time_ticks(0).plus_nanoseconds(ns)


INST_MIN_NS = _inst_ns(Instant.min_value)
INST_MAX_NS = _inst_ns(Instant.max_value)
DUR_MIN_NS = int(Duration.min_value.to_nanoseconds())
DUR_MAX_NS = int(Duration.max_value.to_nanoseconds())
OFF_MIN_S = Offset.min_value.seconds
OFF_MAX_S = Offset.max_value.seconds


@functools.lru_cache(None)
def calendars() -> tuple:
    return tuple(CalendarSystem.for_id(i) for i in CalendarSystem.ids)


def cal_by_id(cid: str):
    return CalendarSystem.for_id(cid)


_ACCEL_CTOR = getattr(LocalDate, "_ctor", None)


def date_public(d: int, cal) -> LocalDate:
    """Day number -> date, public route only."""
    x = _EPOCH.plus_days(d)
    return x if cal is ISO else x.with_calendar(cal)


def date_of(d: int, cal) -> LocalDate:
    """Day number -> date; internal accelerator when present (cross-checked by C01), else public."""
    if _ACCEL_CTOR is not None:
        try:
            return _ACCEL_CTOR(days_since_epoch=d, calendar=cal)
        except TypeError:
            pass
    return date_public(d, cal)


def day_public(x: LocalDate) -> int:
    """Date -> day number via the public API only."""
    iso = x if x.calendar is ISO else x.with_calendar(ISO)
    if 1 <= iso.year <= 9999:
        return iso.to_date().toordinal() - UNIX_ORD
    return Period.days_between(_EPOCH, iso)


def day_of(x: LocalDate) -> int:
    v = getattr(x, "_days_since_epoch", None)
    if isinstance(v, int):
        return v
    return day_public(x)


@functools.lru_cache(None)
def cal_range(cid: str) -> tuple[int, int]:
    """Advertised day range of a calendar, derived from public data only (min_year/max_year,
    months-in-year, days-in-month and the public constructor)."""
    cal = cal_by_id(cid)
    lo_y, hi_y = cal.min_year, cal.max_year
    first = LocalDate(lo_y, 1, 1, cal)
    m = cal.get_months_in_year(hi_y)
    # last date of max_year under the calendar's own ordering: the largest day number among month ends
    best = None
    for mm in range(1, m + 1):
        x = LocalDate(hi_y, mm, cal.get_days_in_month(hi_y, mm), cal)
        dd = day_public(x)
        if best is None or dd > best:
            best = dd
    lo = day_public(first)
    # Hebrew scriptural numbering: month 1 is not the first month of the year; take min over month starts.
    for mm in range(1, cal.get_months_in_year(lo_y) + 1):
        dd = day_public(LocalDate(lo_y, mm, 1, cal))
        if dd < lo:
            lo = dd
    return lo, best


def ymd(x: LocalDate) -> tuple[int, int, int]:
    return (x.year, x.month, x.day)


def ldt_ns(x: LocalDateTime) -> int:
    """Local timeline nanoseconds of a LocalDateTime (day number * DAY + ns of day)."""
    return day_of(x.date) * DAY_NS + x.nanosecond_of_day


def ns_ldt(n: int, cal=ISO) -> LocalDateTime:
    d, r = divmod(n, DAY_NS)
    return date_of(d, cal).at(LocalTime.from_nanoseconds_since_midnight(r))


def lattice(units: list[int], lo: int, hi: int) -> list[int]:
    """Boundary lattice of integers in [lo, hi] around multiples of the given units."""
    s = {0, 1, -1, lo, lo + 1, hi - 1, hi}
    for u in units:
        for k in (1, 2, 3, 7, 10, 59, 60, 61, 365, 1000):
            for d in (-1, 0, 1):
                s.add(k * u + d)
                s.add(-(k * u) + d)
    return sorted(v for v in s if lo <= v <= hi)


def rand_mag(rng, lo: int, hi: int) -> int:
    """Log-uniform magnitude with random sign, clipped to [lo, hi]."""
    bits = rng.randint(0, max(hi, -lo).bit_length())
    v = rng.getrandbits(bits) if bits else 0
    if rng.random() < 0.5:
        v = -v
    return min(hi, max(lo, v))


def interesting_days(cid: str, rng, n_random: int = 50) -> list[int]:
    """Days near range ends, year boundaries and seeded random days of a calendar."""
    lo, hi = cal_range(cid)
    cal = cal_by_id(cid)
    out = {lo, lo + 1, lo + 2, hi, hi - 1, hi - 2, lo + 400, hi - 400}
    for _ in range(n_random):
        out.add(rng.randint(lo, hi))
    for _ in range(max(4, n_random // 4)):
        y = rng.randint(cal.min_year, cal.max_year)
        try:
            s = day_of(LocalDate(y, 1, 1, cal))
        except Exception:  # noqa: BLE001
            continue
        for k in (-1, 0, 1, 58, 59, 60):
            if lo <= s + k <= hi:
                out.add(s + k)
    if lo <= 0 <= hi:
        out |= {0, 10957, 11016}
    return sorted(out)
