"""Seeded yield injection at statement boundaries via sys.monitoring LINE events (DESIGN Appendix A.6).

Pure-Python code can only be pre-empted between bytecodes; a LINE callback that calls time.sleep(0) with seeded
probability hands the GIL to another thread exactly there.  The injector does not name functions: it instruments every
code object defined in the given modules and reports how many distinct code objects actually fired.
"""
from __future__ import annotations

import hashlib
import random
import sys
import threading
import time
import types

TOOL = 4


def code_objects(modules):
    seen = {}

    def add_code(co):
        if id(co) in seen:
            return
        seen[id(co)] = co
        for c in co.co_consts:
            if isinstance(c, types.CodeType):
                add_code(c)

    def visit(obj, depth=0):
        if depth > 4:
            return
        if isinstance(obj, (types.FunctionType,)):
            add_code(obj.__code__)
        elif isinstance(obj, (staticmethod, classmethod)):
            visit(obj.__func__, depth + 1)
        elif isinstance(obj, property):
            for f in (obj.fget, obj.fset, obj.fdel):
                if f is not None:
                    visit(f, depth + 1)
        elif isinstance(obj, type):
            for v in list(vars(obj).values()):
                visit(v, depth + 1)
        elif hasattr(obj, "__wrapped__"):
            visit(obj.__wrapped__, depth + 1)

    for m in modules:
        names = set(getattr(m, "__dict__", {}).keys())
        for name in names:
            v = m.__dict__[name]
            mod = getattr(v, "__module__", None)
            if isinstance(v, type):
                if mod == m.__name__:
                    visit(v)
                    visit(type(v))          # metaclass properties (e.g. CalendarSystem.iso)
            elif isinstance(v, types.FunctionType) and mod == m.__name__:
                visit(v)
    mfiles = {getattr(m, "__file__", None) for m in modules}
    return [co for co in seen.values() if co.co_filename in mfiles]


class YieldInjector:
    def __init__(self, modules, seed, p=0.3, max_sig=4000):
        self.codes = code_objects(modules)
        self.rng = random.Random(seed)
        self.p = p
        self.lock = threading.Lock()
        self.callbacks = 0
        self.injections = 0
        self.fired = set()
        self.sig = hashlib.blake2b(digest_size=8)
        self.sig_n = 0
        self.max_sig = max_sig
        self.tids = {}
        self.active = False

    def _cb(self, code, line):
        with self.lock:
            self.callbacks += 1
            self.fired.add(code)
            y = self.rng.random() < self.p
            if y:
                self.injections += 1
                if self.sig_n < self.max_sig:
                    t = self.tids.setdefault(threading.get_ident(), len(self.tids))
                    self.sig.update(f"{t}:{code.co_name}:{line};".encode()); self.sig_n += 1
        if y:
            time.sleep(0)

    def start(self):
        mon = sys.monitoring
        try:
            mon.use_tool_id(TOOL, "vf-yield")
        except ValueError:
            pass
        mon.register_callback(TOOL, mon.events.LINE, self._cb)
        for co in self.codes:
            try:
                mon.set_local_events(TOOL, co, mon.events.LINE)
            except Exception:  # noqa: BLE001
                pass
        self.active = True

    def stop(self):
        mon = sys.monitoring
        for co in self.codes:
            try:
                mon.set_local_events(TOOL, co, 0)
            except Exception:  # noqa: BLE001
                pass
        mon.register_callback(TOOL, mon.events.LINE, None)
        try:
            mon.free_tool_id(TOOL)
        except Exception:  # noqa: BLE001
            pass
        self.active = False

    def signature(self):
        return self.sig.hexdigest()

    def stats(self):
        return {"code_objects": len(self.codes), "fired": len(self.fired), "callbacks": self.callbacks, "injections": self.injections, "signature": self.signature()}
