"""Open finding C05:beyond-adjacent-interval - demonstration against the real code.

    LD_LIBRARY_PATH=/verif/.deps/icu PYTHONPATH=/repo /venv/bin/python findings/C05-beyond-adjacent-interval/demo.py

A user-defined zone that is at +06:00 for all time, but whose interval NAME changes twice within one hour.  No local time is skipped or
ambiguous in such a zone.  DateTimeZone.map_local looks only at the interval containing the instant numerically equal to the local value
and at its two direct neighbours; the interval that actually matches lies two intervals away, so the mapping is reported as a gap.
Exits 1 while the defect is present.
"""
import sys

from pyoda_time import DateTimeZone, Duration, Instant, Offset
from pyoda_time.time_zones import ZoneInterval


class ListZone(DateTimeZone):
    def __init__(self, id_, intervals):
        super().__init__(id_, False, Offset.from_hours(6), Offset.from_hours(6))
        self.intervals = intervals

    def get_zone_interval(self, instant):
        return next(i for i in self.intervals if instant in i)


T0 = Instant.from_utc(2021, 3, 14, 10, 0)
T1 = T0 + Duration.from_hours(1)
six = Offset.from_hours(6)
zone = ListZone("Plus6", [ZoneInterval(name="A", start=None, end=T0, wall_offset=six, savings=Offset.zero),
                          ZoneInterval(name="B", start=T0, end=T1, wall_offset=six, savings=Offset.zero),
                          ZoneInterval(name="C", start=T1, end=None, wall_offset=six, savings=Offset.zero)])
instant = T0 - Duration.from_hours(1)                      # lies in interval A
local = instant.in_zone(zone).local_date_time               # 2021-03-14T15:00 local
mapping = zone.map_local(local)
print("instant", instant, "renders as", local, "-> map_local count =", mapping.count)
if mapping.count != 1 or mapping.single().to_instant() != instant:
    print("BROKEN: the local time exists exactly once (offset is +06 throughout) but is reported as skipped/ambiguous")
    sys.exit(1)
print("OK")
